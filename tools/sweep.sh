#!/bin/bash
# sweep.sh <tier> <seed>... : run every check with the given seeds on the unchanged tree; one line per run
tier=$1; shift
for s in "$@"; do
  for p in C01 C02 C03 C04 C05 C06 C07 C08 C09 C10 C11 C12 C13 C14 C15 C16 C17 C18 C19 C20; do
    start=$(date +%s)
    out=$(VERIF_SEED=$s ./check $p $tier 2>&1); rc=$?
    echo "seed=$s $p rc=$rc $(( $(date +%s) - start ))s :: $(echo "$out" | grep -E "VIOLATION|MACHINERY|DRIFT|KNOWN" | head -3 | tr '\n' '|')"
  done
done
