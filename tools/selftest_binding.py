#!/usr/bin/env python3
"""Demonstrates that the specification is bound to the traces (DESIGN.md 15.2):
   (1) an unmodified trace recorded from the real library is accepted without verdicts;
   (2) one corrupted answer  -> a Layer-P and a Layer-M verdict at exactly that line;
   (3) one corrupted decoded label in the `table` event -> Layer-M verdict (M:table) only;
   (4) one removed line (the `new` event) -> the trace is NOT accepted (POSTCONDITION false).
exit 0 if all four behave so."""
import json, os, subprocess, sys, tempfile, shutil, glob, re
sys.path.insert(0, os.path.dirname(os.path.abspath(__file__)))
VERIF = os.path.dirname(os.path.dirname(os.path.abspath(__file__)))
TLA_CP = "/opt/veriftools/tla/tla2tools.jar:/opt/veriftools/tla/CommunityModules-deps.jar"
env = dict(os.environ, GOFLAGS="-mod=mod", GOPROXY="off", GOSUMDB="off", GOTOOLCHAIN="local")
d = tempfile.mkdtemp(prefix="slimverif-selftest-")
try:
    h = os.path.join(d, "harness"); shutil.copytree(os.path.join(VERIF, "harness"), h)
    subprocess.check_call(["go", "build", "-tags", "verif", "-o", os.path.join(d, "slimdrv"), "./cmd/slimdrv"], cwd=h, env=env)
    tr = os.path.join(d, "tr"); os.makedirs(tr)
    subprocess.check_call([os.path.join(d, "slimdrv"), "gen", "-prop", "C01", "-tier", "quick", "-seed", "7", "-out", tr, "-chunks", "1"], cwd=d)
    lines = open(os.path.join(tr, "chunk-00.ndjson")).read().split("\n")
    # first case with >= 3 keys
    start = next(i for i, l in enumerate(lines) if l and json.loads(l)["ev"] == "new" and len(json.loads(l)["keys"]) >= 3 and json.loads(l)["hasvals"])
    end = next(i for i in range(start + 1, len(lines)) if not lines[i] or json.loads(lines[i])["ev"] == "new")
    case = [json.loads(l) for l in lines[start:end]]
    sd = os.path.join(d, "spec"); os.makedirs(sd)
    for f in glob.glob(os.path.join(VERIF, "spec", "*")): shutil.copy(f, sd)
    def run(evs, tag):
        p = os.path.join(d, tag + ".ndjson")
        open(p, "w").write("\n".join(json.dumps(e) for e in evs) + "\n")
        cfg = open(os.path.join(sd, "Trace_Lookup.cfg")).read().replace('"trace.ndjson"', '"%s"' % p)
        open(os.path.join(sd, tag + ".cfg"), "w").write(cfg)
        out = subprocess.run(["java", "-XX:+UseParallelGC", "-Xss512m", "-cp", TLA_CP, "tlc2.TLC", "-workers", "1", "-metadir", os.path.join(d, "md" + tag),
                              "-config", tag + ".cfg", "Trace_Lookup.tla"], cwd=sd, stdout=subprocess.PIPE, stderr=subprocess.STDOUT, universal_newlines=True).stdout
        codes = re.findall(r'<<"VERDICT", (\d+), "([^"]+)"', out)
        return ("No error has been found" in out), codes
    ok = True
    acc, codes = run(case, "orig")
    print("(1) original:", "accepted" if acc else "REJECTED", codes); ok &= acc and not codes
    k = next(i for i, e in enumerate(case) if e["ev"] == "obsk")
    bad = json.loads(json.dumps(case)); bad[k]["gets"][0] = [0, [-1]]
    acc, codes = run(bad, "answer")
    print("(2) corrupted answer at line %d:" % (k + 1), codes); ok &= acc and any(c[1].startswith("P:C01") and int(c[0]) == k + 1 for c in codes) and any(c[1] == "M:answers" for c in codes)
    t = next(i for i, e in enumerate(case) if e["ev"] == "table")
    bad = json.loads(json.dumps(case)); n0 = next(n for n in bad[t]["nodes"] if n["t"] == 1); n0["labels"][-1] = (n0["labels"][-1] % 16) + 1 if n0["labels"][-1] % 16 + 1 not in n0["labels"] else n0["labels"][-1] + 100
    acc, codes = run(bad, "label")
    print("(3) corrupted label at line %d:" % (t + 1), codes); ok &= acc and any(c[1] == "M:table" for c in codes) and not any(c[1].startswith("P:") for c in codes)
    acc, codes = run(case[1:], "removed")
    print("(4) `new` line removed:", "accepted" if acc else "not accepted (as it must be)"); ok &= not acc
    print("BINDING SELFTEST", "ok" if ok else "FAILED")
    sys.exit(0 if ok else 1)
finally:
    shutil.rmtree(d, ignore_errors=True)
