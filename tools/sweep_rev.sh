#!/bin/bash
# sweep_rev.sh <tier> <seed>... : like sweep.sh, properties in reverse order (to split a long sweep over two runs)
tier=$1; shift
for s in "$@"; do
  for p in C20 C19 C18 C17 C16 C15 C14 C13 C12 C11 C10 C09; do
    start=$(date +%s)
    out=$(VERIF_SEED=$s ./check $p $tier 2>&1); rc=$?
    echo "seed=$s $p rc=$rc $(( $(date +%s) - start ))s :: $(echo "$out" | grep -E "VIOLATION|MACHINERY|DRIFT|KNOWN" | head -3 | tr '\n' '|')"
  done
done
