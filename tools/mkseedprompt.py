#!/usr/bin/env python3
"""Generate the prompt given to a fresh sub-agent that seeds a defect for one property.
usage: mkseedprompt.py <property id> <variant letter> [worktree dir]
Only the property text goes in; nothing from /verif."""
import json, sys
props = {}
for l in open('/verif/properties.jsonl'):
    p = json.loads(l); props[p['id']] = p
T = '''You are helping to evaluate a verification framework by writing a *seeded defect* (a mutation) for the Go library openacid/slim (a static succinct trie index, "SlimTrie").

You have your own scratch git worktree of the library at {wt} (a detached checkout; work ONLY there and under {out}; never touch /repo or /verif and do not read anything under /verif).

Environment: the sandbox is offline. In every shell call first run:
  export GOFLAGS=-mod=mod GOPROXY=off GOSUMDB=off GOTOOLCHAIN=local
The existing test suite is run from the worktree root with:
  go test -vet=off -count=1 ./...
(it takes about 2-3 minutes; the trie package dominates). The sandbox is SHARED: never run more than one `go test` process at a time, always pass `-p 2` and set GOMAXPROCS=4, and do not loop fuzz/randomized tests in parallel.

The semantic property you must break:

  Title: {title}
  Statement: {statement}
  Quantified over: {quant}

Task: make a small, realistic change to the library's non-test Go source in {wt} (the kind of slip a maintainer could make in a refactoring, optimisation or bug fix - not blatant sabotage) such that
  1. the library still compiles and the ENTIRE existing test suite still passes (run it and confirm; do not edit, delete or skip existing tests);
  2. the property above is violated for some inputs;
  3. the violation needs something specific to manifest - e.g. an unusual input (particular byte values, lengths, key shapes, option combination, number of keys/nodes crossing an internal threshold), a multi-step sequence of operations, a particular interleaving, a fault at a particular point, or two cooperating sites that each look fine alone. A change that ordinary use would expose at once (e.g. every lookup fails) is NOT wanted.
Prefer changes located in the files most relevant to the property: {files}. Read the code carefully first to find a subtle spot. {extra}{used}

Deliverables, all under {out}/ (create it):
  - patch.diff : output of `git -C {wt} diff` for your change (library source only, no test files in it);
  - demo_test.go : a self-contained Go test file (say in notes.md which package directory it belongs in, e.g. trie/) that FAILS with your change applied and PASSES on the unchanged library. Keep it deterministic and fast (< 30 s);
  - notes.md : which property it breaks, what exactly is needed for the defect to manifest, the precise commands you ran and their outcome (existing suite with the patch: pass; demo with patch: fail; demo without patch: pass).
Verify all three outcomes yourself before finishing (use `git -C {wt} stash` / `git -C {wt} stash pop` to test without the change; keep the demo test out of the worktree while running the existing suite, or confirm it is the only failing test). Leave the worktree with your change applied at the end. Your final message should be a 5-line summary: file(s) changed, the idea of the mutation, what it needs to manifest, and confirmation of the three outcomes.'''
extras = {
 'C06': 'Note: legacy byte streams of old versions are in trie/testdata/ (fixtures for nine ASCII key sets); a good mutation breaks loading of legacy data for key shapes NOT covered by those fixtures (for the demo you may have to construct a legacy stream by hand, e.g. with the array package types as the old versions did: three sections children(array.Array32)/steps(array.U16)/leaves(array.Array), each written with pbcmpl.Marshal; or the 0.5.10 layout).',
 'C11': 'A good mutation introduces shared mutable state touched by a read path (a cache, a reused buffer, a lazily computed field) so that concurrent readers can interfere; the demo may use the race detector (go test -race works offline here) or a deterministic interleaving.',
}
import glob, os
pid, variant = sys.argv[1], sys.argv[2]
# descriptions of EARLIER seeded mutations of this property (what each needed to manifest) - they say nothing
# about the verification machinery; they only keep a new agent from repeating an idea
def used_ideas(pid):
    out = []
    for d in sorted(glob.glob('/verif/seeded/%s-*' % pid)):
        try:
            out.append(json.load(open(os.path.join(d, 'meta.json')))['needs_to_manifest'])
        except Exception:
            pass
    if not out:
        return ''
    return ('\n\nEarlier mutations written for this property already used the ideas below. Yours must be of a DIFFERENT kind: a different code site AND a different triggering condition (do not vary one of these):\n'
            + ''.join('  - %s\n' % x for x in out))
wt = sys.argv[3] if len(sys.argv) > 3 else f'/tmp/wt/{pid}{variant}'
p = props[pid]
print(T.format(wt=wt, out=f'/tmp/seed/{pid}-{variant}', title=p['title'], statement=p['statement'],
               quant=p['quantifier']['text'], files=', '.join(p['anchors']['files']), extra=extras.get(pid, ''), used=used_ideas(pid)))
