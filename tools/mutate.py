#!/usr/bin/env python3
"""mutate.py gen <outdir> <n> [seed]   : write n mechanical one-token mutants of the library (patch files)
   mutate.py run <outdir> [first] [last]: for each mutant: does the repository's own suite kill it?  if not,
                                         do the checks mapped to its file report a VIOLATION?

A diagnostic for the generators (which statements of the library can change without any check
noticing), not a check: nothing here is registered in MANIFEST.json.  Works in a scratch
worktree of /repo under /tmp (removed at the end); /repo itself is never touched.
Results: <outdir>/results.tsv  (mutant, file:line, operator, suite, detected-by | SURVIVED)."""
import os, random, re, subprocess, sys, json, shutil

REPO = "/repo"
VERIF = os.path.dirname(os.path.dirname(os.path.abspath(__file__)))
FILES = {
    "trie/slimtrie_query.go": ["C01", "C03", "C10", "C09", "C02"],
    "trie/slimtrie_create.go": ["C01", "C08", "C13", "C05", "C17", "C03"],
    "trie/slimtrie_scan.go": ["C04"],
    "trie/slimtrie_marshal.go": ["C06", "C05", "C07"],
    "trie/slimtrie_vlen_array.go": ["C01", "C04", "C05"],
    "trie/slimtrie_getint.go": ["C14"],
    "trie/slimtrie_str.go": ["C19"],
    "trie/slimtrie_stat.go": ["C18"],
    "trie/slimtrie_level.go": ["C18"],
    "trie/slimtrie.go": ["C01", "C20", "C08", "C07"],
    "trie/bitmap.go": ["C01"],
    "array/base.go": ["C16"],
    "array/array.go": ["C16"],
    "array/int.go": ["C16"],
    "encode/encoder.go": ["C15"],
    "encode/int.go": ["C15"],
    "encode/int8.go": ["C15"],
    "encode/nativeint.go": ["C15"],
    "encode/bytes.go": ["C15"],
    "encode/type_encoder.go": ["C15"],
    "index/index.go": ["C12"],
}
OPS = [
    (r"<=", "<"), (r"(?<![<-])<(?![=<-])", "<="), (r">=", ">"), (r"(?<![>-])>(?![=>])", ">="),
    (r"==", "!="), (r"!=", "=="), (r"&&", "||"), (r"\|\|", "&&"),
    (r" \+ 1\b", ""), (r" - 1\b", ""), (r"\+ 1\b", "+ 2"), (r"-1\b", "-2"),
    (r"\b63\b", "31"), (r"\b64\b", "32"), (r"\b17\b", "16"), (r"\b257\b", "256"), (r"\b7\b", "3"),
    (r">>6\b", ">>5"), (r">> 6\b", ">> 5"), (r"<<3\b", "<<2"), (r">>3\b", ">>2"), (r">>2\b", ">>1"),
    (r"0xffff\b", "0x7fff"), (r"\bint32\(", "int16("), (r"\+=", "-="), (r"\btrue\b", "false"), (r"\bfalse\b", "true"),
    (r"\b0\b", "1"), (r"\b1\b", "0"), (r"\b2\b", "3"), (r"\b4\b", "8"), (r"\b8\b", "4"),
]
SKIP = re.compile(r"^\s*(//|\*|import|package|func |type |var |const |\"|verifPoint|must\.|panic\(|return errors|fmt\.)")


def sites():
    out = []
    for f in FILES:
        lines = open(os.path.join(REPO, f)).read().split("\n")
        incomment = False
        for i, ln in enumerate(lines):
            code = ln.split("//")[0]
            if SKIP.match(ln) or not code.strip() or "errors." in code or "Errorf" in code:
                continue
            for oi, (pat, rep) in enumerate(OPS):
                for m in re.finditer(pat, code):
                    # not inside a string literal (crude: even number of quotes before)
                    if code[:m.start()].count('"') % 2 == 1:
                        continue
                    out.append((f, i, m.start(), m.end(), oi))
    return out


def gen(outdir, n, seed):
    os.makedirs(outdir, exist_ok=True)
    r = random.Random(seed)
    ss = sites()
    r.shuffle(ss)
    # stratify: at most n * weight per file
    per = {}
    chosen = []
    for s in ss:
        per.setdefault(s[0], 0)
        cap = max(3, int(n * {"trie/slimtrie_query.go": 0.25, "trie/slimtrie_create.go": 0.25, "trie/slimtrie_scan.go": 0.15,
                              "trie/slimtrie_marshal.go": 0.12}.get(s[0], 0.03)))
        if per[s[0]] >= cap:
            continue
        per[s[0]] += 1
        chosen.append(s)
        if len(chosen) >= n:
            break
    for k, (f, i, a, b, oi) in enumerate(chosen):
        src = open(os.path.join(REPO, f)).read().split("\n")
        old = src[i]
        new = old[:a] + OPS[oi][1] + old[b:]
        src2 = list(src)
        src2[i] = new
        tmpa, tmpb = "/tmp/mut_a.go", "/tmp/mut_b.go"
        open(tmpa, "w").write("\n".join(src))
        open(tmpb, "w").write("\n".join(src2))
        d = subprocess.run(["diff", "-u", "--label", "a/" + f, "--label", "b/" + f, tmpa, tmpb], stdout=subprocess.PIPE,
                           universal_newlines=True).stdout
        name = "m%03d" % k
        open(os.path.join(outdir, name + ".diff"), "w").write(d)
        json.dump({"file": f, "line": i + 1, "op": "%s -> %s" % (OPS[oi][0], OPS[oi][1]), "old": old.strip(), "new": new.strip()},
                  open(os.path.join(outdir, name + ".json"), "w"))
    print("wrote", len(chosen), "mutants to", outdir)


ENV = dict(os.environ, GOFLAGS="-mod=mod", GOPROXY="off", GOSUMDB="off", GOTOOLCHAIN="local", GOMAXPROCS="4")


def run(outdir, first, last):
    wt = "/tmp/mutwt-%d" % os.getpid()
    subprocess.run(["git", "-C", REPO, "worktree", "add", "--detach", wt, "HEAD"], stdout=subprocess.DEVNULL, stderr=subprocess.DEVNULL)
    res = open(os.path.join(outdir, "results.tsv"), "a")
    try:
        names = sorted(x[:-5] for x in os.listdir(outdir) if x.endswith(".diff"))
        for name in names:
            k = int(name[1:])
            if k < first or k > last:
                continue
            meta = json.load(open(os.path.join(outdir, name + ".json")))
            subprocess.run(["git", "-C", wt, "checkout", "-q", "--", "."])
            if subprocess.run(["git", "-C", wt, "apply", os.path.join(outdir, name + ".diff")]).returncode != 0:
                continue
            pk = "./" + os.path.dirname(meta["file"]) + "/"
            b = subprocess.run(["go", "build", "./..."], cwd=wt, env=ENV, stdout=subprocess.PIPE, stderr=subprocess.STDOUT)
            b2 = subprocess.run(["go", "build", "-tags", "verif", "./..."], cwd=wt, env=ENV, stdout=subprocess.PIPE, stderr=subprocess.STDOUT)
            if b.returncode != 0 or b2.returncode != 0:
                verdict = ("nocompile", "-")
            else:
                pkgs = [pk] if pk != "./trie/" else ["./trie/", "./index/"]
                if pk in ("./array/", "./encode/"):
                    pkgs = ["./..."]
                try:
                    t = subprocess.run(["go", "test", "-vet=off", "-count=1", "-p", "2", "-timeout", "15m"] + pkgs, cwd=wt, env=ENV,
                                       stdout=subprocess.PIPE, stderr=subprocess.STDOUT, timeout=1200)
                    suite_ok = t.returncode == 0
                except subprocess.TimeoutExpired:
                    suite_ok = False
                if not suite_ok:
                    verdict = ("killed-by-suite", "-")
                else:
                    det = "SURVIVED"
                    for prop in FILES[meta["file"]]:
                        try:
                            c = subprocess.run(["./check", prop, "quick"], cwd=VERIF, env=dict(os.environ, SLIM_REPO=wt),
                                               stdout=subprocess.PIPE, stderr=subprocess.STDOUT, universal_newlines=True, timeout=2400)
                        except subprocess.TimeoutExpired:
                            det = "TIMEOUT:" + prop
                            break
                        if c.returncode == 1 and "VIOLATION" in c.stdout:
                            codes = sorted(set(re.findall(r"code=(\S+)", c.stdout)))
                            det = prop + ":" + ",".join(codes[:3])
                            break
                        if c.returncode == 2:
                            det = "MACHINERY:" + prop + ":" + c.stdout.strip().split("\n")[-1][:120]
                            break
                        if "DRIFT" in c.stdout:
                            det = "SURVIVED(drift in %s)" % prop
                    verdict = ("suite-passes", det)
            res.write("\t".join([name, "%s:%d" % (meta["file"], meta["line"]), meta["op"], meta["old"][:70], verdict[0], verdict[1]]) + "\n")
            res.flush()
    finally:
        subprocess.run(["git", "-C", REPO, "worktree", "remove", "--force", wt])
        shutil.rmtree(wt, ignore_errors=True)


if __name__ == "__main__":
    if sys.argv[1] == "gen":
        gen(sys.argv[2], int(sys.argv[3]), int(sys.argv[4]) if len(sys.argv) > 4 else 1)
    else:
        run(sys.argv[2], int(sys.argv[3]) if len(sys.argv) > 3 else 0, int(sys.argv[4]) if len(sys.argv) > 4 else 10 ** 6)
