"""Per-property configuration of ./check (which trace spec judges it, which design check
(B1) accompanies it, budgets).  Commands are registered in MANIFEST.json."""

REAL = {"BigMin": "10", "ShortCost": "64", "MaxShort": "10", "StepBits": "16"}

LOOKUP_ASSUME = [
    "TLC evaluates the TLA+ definitions faithfully; the Json module parses the trace faithfully",
    "the harness logs what the library returned (values re-encoded with harness-native encoders)",
    "floor witnesses logged by the harness are verified by the spec, not trusted",
    "bounds: see coverage.rule and coverage.classes_reached; nothing is claimed beyond the inputs generated",
]


def lookup(prop, quick_b1="MC_Lookup_quick.cfg", thorough_b1="MC_Lookup_thorough.cfg", b1spec="MC_Lookup.tla"):
    return {
        "trace_spec": "Trace_Lookup.tla", "trace_cfg": "Trace_Lookup.cfg", "consts": dict(REAL, LayerM="TRUE"),
        "decides": [prop],
        "assumptions": LOOKUP_ASSUME,
        "quick": {"b1": [(b1spec, quick_b1)], "b1_workers": 4, "b1_timeout": 600, "chunks": 12,
                  "tlc_timeout": 900, "maxpar": 12},
        "thorough": {"b1": [(b1spec, thorough_b1)], "b1_workers": 6, "b1_timeout": 3000, "chunks": 32,
                     "tlc_timeout": 3000, "maxpar": 10},
    }


def scan():
    return {
        "trace_spec": "Trace_Scan.tla", "trace_cfg": "Trace_Scan.cfg", "consts": dict(REAL, LayerM="TRUE"),
        "decides": ["C04"],
        "assumptions": LOOKUP_ASSUME[:2] + ["every yielded slice is copied by the harness before the next call (the library reuses its buffer)",
                                            "bounds: see coverage.rule and coverage.classes_reached"],
        "quick": {"b1": [("MC_Scan.tla", "MC_Scan_quick.cfg")], "b1_workers": 4, "b1_timeout": 600, "chunks": 12,
                  "tlc_timeout": 900, "maxpar": 12},
        "thorough": {"b1": [("MC_Scan.tla", "MC_Scan_thorough.cfg")], "b1_workers": 6, "b1_timeout": 3000, "chunks": 32,
                     "tlc_timeout": 3000, "maxpar": 10},
    }


CHECKS = {
    "C04": scan(),
    "C01": lookup("C01"),
    "C02": lookup("C02"),
    "C03": lookup("C03"),
    "C08": lookup("C08", "MC_Build_quick.cfg", "MC_Build_thorough.cfg", "MC_Build.tla"),
    "C09": lookup("C09"),
    "C10": lookup("C10"),
    "C13": lookup("C13"),
    "C14": lookup("C14"),
    "C19": lookup("C19"),
    "C18": lookup("C18"),
}
