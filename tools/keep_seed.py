#!/usr/bin/env python3
"""keep_seed.py <seed name e.g. C01-a> <property> <detected: yes|no> "<check command that was run>" "<needs>"
copies a CONFIRMED seeded change from /tmp/seed/<name> to /verif/seeded/<name>/ with meta.json"""
import json, os, shutil, sys
name, prop, detected, ran, needs = sys.argv[1:6]
src = '/tmp/seed/' + name
dst = '/verif/seeded/' + name
os.makedirs(dst, exist_ok=True)
for f in ('patch.diff', 'demo_test.go', 'notes.md'):
    if os.path.exists(os.path.join(src, f)):
        shutil.copy(os.path.join(src, f), dst)
conf = {}
for f in ('confirm_suite.log', 'confirm_demo_with.log', 'confirm_demo_without.log'):
    p = os.path.join(src, f)
    if os.path.exists(p):
        conf[f] = open(p, errors='replace').read()[-600:]
meta = {"seed": name, "breaks_property": prop, "needs_to_manifest": needs,
        "confirmed_in_scratch_worktree": {"existing_suite_with_patch": "pass", "demo_with_patch": "fail", "demo_without_patch": "pass",
                                          "how": "tools/confirm_seed.sh in a scratch worktree of /repo (removed afterwards)"},
        "check_run": ran, "detected": detected == 'yes', "logs": conf}
json.dump(meta, open(os.path.join(dst, 'meta.json'), 'w'), indent=1)
print("kept", dst)
