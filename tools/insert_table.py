#!/usr/bin/env python3
"""insert_table.py : put the output of design_table.py between the EVIDENCE-TABLE markers of DESIGN.md"""
import os, re, subprocess
d = os.path.join(os.path.dirname(os.path.abspath(__file__)), "..")
t = subprocess.run(["python3", os.path.join(d, "tools", "design_table.py")], stdout=subprocess.PIPE, universal_newlines=True).stdout
p = os.path.join(d, "DESIGN.md")
s = open(p).read()
s = re.sub(r"<!-- EVIDENCE-TABLE-BEGIN -->.*<!-- EVIDENCE-TABLE-END -->", "<!-- EVIDENCE-TABLE-BEGIN -->\n" + t + "<!-- EVIDENCE-TABLE-END -->", s, flags=re.S)
open(p, "w").write(s)
