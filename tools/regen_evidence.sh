#!/bin/bash
# regen_evidence.sh <tier> [ids...] : run the registered checks from /verif on /repo itself (this is what writes
# /verif/evidence/<id>.json); one line per check
tier=${1:-quick}; shift
cd "$(dirname "$0")/.."
for p in ${@:-C01 C02 C03 C04 C05 C06 C07 C08 C09 C10 C11 C12 C13 C14 C15 C16 C17 C18 C19 C20}; do
  start=$(date +%s)
  out=$(./check $p $tier 2>&1); rc=$?
  echo "$p $tier rc=$rc $(( $(date +%s) - start ))s :: $(echo "$out" | grep -E "VIOLATION|MACHINERY|DRIFT|KNOWN" | head -3 | tr '\n' '|')"
done
