#!/bin/bash
# coverage.sh [tier] : run every check with a coverage-instrumented harness and list the
# library statements (slim and low) that no generated input reached.  A diagnostic for
# the generators, not a check: nothing is decided here.
export GOFLAGS=-mod=mod GOPROXY=off GOSUMDB=off GOTOOLCHAIN=local
tier=${1:-quick}
cd "$(dirname "$0")/.."
cov=$(mktemp -d /tmp/slimcov.XXXXXX)
export SLIM_COVERDIR=$cov/data
export SLIM_REPO=/repo/.   # not "/repo": keeps the evidence files untouched
for p in ${PROPS:-C01 C02 C03 C04 C05 C06 C07 C08 C09 C10 C11 C12 C13 C14 C15 C16 C17 C18 C19 C20}; do
  ./check $p $tier > $cov/$p.log 2>&1; echo "$p rc=$?"
done
(cd harness && go tool covdata textfmt -i=$SLIM_COVERDIR -o $cov/cover.txt)
echo "profile: $cov/cover.txt"
python3 tools/uncovered.py $cov/cover.txt
