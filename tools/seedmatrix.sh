#!/bin/bash
# seedmatrix.sh [tier]: run every kept seed against the check of the property it breaks (scratch worktrees)
tier=${1:-quick}
cd "$(dirname "$0")/.."
for d in seeded/*/; do
  id=$(basename $d); prop=$(python3 -c "import json;print(json.load(open('$d/meta.json'))['breaks_property'])")
  start=$(date +%s)
  out=$(tools/seedwt.sh $(pwd)/$d/patch.diff $prop $tier 2>&1); rc=$?
  echo "$id $prop rc=$rc $(( $(date +%s) - start ))s $(echo "$out" | grep -m1 -oE 'code=[A-Za-z0-9:_-]+')"
done
