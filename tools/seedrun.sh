#!/bin/bash
# seedrun.sh <patch.diff> <property> [tier] : apply a seeded change to /repo, run the check, undo it.
p=$1; prop=$2; tier=${3:-quick}
cd /verif
git -C /repo diff --quiet || { echo "/repo has local changes, refusing"; exit 2; }
git -C /repo apply $p || { echo "patch does not apply"; exit 2; }
VERIF_SEED=${VERIF_SEED:-1} ./check $prop $tier; rc=$?
git -C /repo checkout -- .
echo "seedrun $p $prop $tier rc=$rc"
exit $rc
