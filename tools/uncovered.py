#!/usr/bin/env python3
"""uncovered.py <cover profile> : per file, the statement blocks with count 0 (merged over all runs)."""
import sys, collections, re
blocks = collections.defaultdict(int)
for line in open(sys.argv[1]):
    if line.startswith("mode:"): continue
    m = re.match(r"(.*):(\d+)\.(\d+),(\d+)\.(\d+) (\d+) (\d+)", line)
    if not m: continue
    f, l1, c1, l2, c2, n, cnt = m.groups()
    blocks[(f, int(l1), int(l2), int(n))] += int(cnt)
per = collections.defaultdict(lambda: [0, 0, []])
for (f, l1, l2, n), cnt in sorted(blocks.items()):
    if f.endswith(".pb.go") or "/benchhelper/" in f or "/polyfit" in f or "verif/harness" in f: continue
    per[f][0] += n
    if cnt == 0:
        per[f][1] += n; per[f][2].append((l1, l2))
for f, (tot, unc, ls) in sorted(per.items()):
    print("%-70s %4d stmts, %4d unreached  %s" % (f, tot, unc, " ".join("%d-%d" % x for x in ls[:60])))
