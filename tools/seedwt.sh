#!/bin/bash
# seedwt.sh <patch.diff> <property> [tier] : run a check against a SCRATCH worktree of /repo with the
# seeded change applied (does not touch /repo; usable while other checks run). The worktree is removed.
p=$1; prop=$2; tier=${3:-quick}
wt=$(mktemp -d /tmp/seedwt-XXXXXX)
git -C /repo worktree add --detach $wt HEAD >/dev/null 2>&1 || { echo "cannot create worktree"; exit 2; }
git -C $wt apply --3way $p >/dev/null 2>&1 || git -C $wt apply $p || { echo "patch does not apply"; git -C /repo worktree remove --force $wt; exit 2; }
cd "$(dirname "$0")/.."
SLIM_REPO=$wt VERIF_SEED=${VERIF_SEED:-1} ./check $prop $tier; rc=$?
git -C /repo worktree remove --force $wt
echo "seedwt $p $prop $tier rc=$rc"
exit $rc
