#!/usr/bin/env python3
"""design_table.py : a markdown table of what the last run of every check covered, from evidence/*.json
(used for DESIGN.md section 10a; the evidence files are written by ./check on /repo itself)"""
import json, glob, os
rows = []
for f in sorted(glob.glob(os.path.join(os.path.dirname(__file__), "..", "evidence", "C*.json"))):
    e = json.load(open(f))
    c = e["coverage"]
    b1 = "; ".join("%s %d" % (d.get("config", "?").replace(".cfg", ""), d.get("distinct_states", 0)) for d in c.get("design_check_B1", []))
    cls = c.get("classes_reached", {})
    phases = sorted({k.split("/")[0] for k in cls if "/" in k})
    rows.append("| %s | %s | %s | %d | %d | %d | %d | %s | %d | %.0f |" % (
        e["property_id"], e["tier"], b1, c.get("traces_validated_against_impl", 0), c.get("trace_events", 0),
        c.get("evaluations", 0), c.get("distinct_nontrivial", 0), ", ".join(phases) or "-", c.get("drift_layer_M", 0), e.get("wall_s", 0)))
print("| id | tier | B1: config and distinct states | cases | trace events judged by TLC | evaluations | distinct non-trivial | further phases | drift | wall s |")
print("|---|---|---|---|---|---|---|---|---|---|")
print("\n".join(rows))
