#!/bin/bash
# confirm_seed.sh <seed dir e.g. /tmp/seed/C01-a> <worktree> <pkgdir e.g. trie>
# Confirms, in the scratch worktree: (1) existing suite passes with the patch,
# (2) the demo fails with the patch, (3) the demo passes without it.
# Prints one summary line; leaves the worktree clean (patch NOT applied).
export GOFLAGS=-mod=mod GOPROXY=off GOSUMDB=off GOTOOLCHAIN=local
sd=$1; wt=$2; pkg=${3:-trie}
cd $wt || exit 2
git checkout -q -- . ; git clean -fdq
git apply $sd/patch.diff || { echo "SEED $sd: patch does not apply"; exit 2; }
go build ./... || { echo "SEED $sd: does not compile"; exit 2; }
suite=FAIL; go test -vet=off -count=1 -timeout 25m -p 4 ./... > $sd/confirm_suite.log 2>&1 && suite=pass
cp $sd/demo_test.go $pkg/zz_demo_seed_test.go
with=pass; go test -vet=off -count=1 -run . ./$pkg/ -run "$(grep -oE 'func (Test[A-Za-z0-9_]+)' $sd/demo_test.go | awk '{print $2}' | paste -sd'|')" > $sd/confirm_demo_with.log 2>&1 || with=FAIL
git apply -R $sd/patch.diff
without=FAIL; go test -vet=off -count=1 ./$pkg/ -run "$(grep -oE 'func (Test[A-Za-z0-9_]+)' $sd/demo_test.go | awk '{print $2}' | paste -sd'|')" > $sd/confirm_demo_without.log 2>&1 && without=pass
rm -f $pkg/zz_demo_seed_test.go
git checkout -q -- . ; git clean -fdq
echo "SEED $sd: suite_with_patch=$suite demo_with_patch=$with demo_without_patch=$without"
