module verif/harness

go 1.23

toolchain go1.23.5

require (
	github.com/golang/protobuf v1.3.1
	github.com/openacid/low v0.1.21
	github.com/openacid/slim v0.0.0
	github.com/openacid/testkeys v0.1.6
	pgregory.net/rapid v1.3.0
)

require (
	github.com/blang/semver v3.5.1+incompatible // indirect
	github.com/creack/pty v1.1.9 // indirect
	github.com/davecgh/go-spew v1.1.1 // indirect
	github.com/google/btree v1.1.2 // indirect
	github.com/kr/pretty v0.3.1 // indirect
	github.com/kr/text v0.2.0 // indirect
	github.com/mattn/go-runewidth v0.0.4 // indirect
	github.com/mdempsky/unconvert v0.0.0-20200228143138-95ecdbfc0b5f // indirect
	github.com/openacid/errors v0.8.1 // indirect
	github.com/openacid/genr v0.1.1 // indirect
	github.com/openacid/must v0.1.3 // indirect
	github.com/openacid/tablewriter v0.0.0-20190429071406-b14f71081b86 // indirect
	github.com/openacid/testutil v0.1.3 // indirect
	github.com/pkg/diff v0.0.0-20210226163009-20ebb0f2a09e // indirect
	github.com/pkg/errors v0.9.1 // indirect
	github.com/pmezard/go-difflib v1.0.0 // indirect
	github.com/rogpeppe/go-internal v1.9.0 // indirect
	github.com/stretchr/objx v0.5.0 // indirect
	github.com/stretchr/testify v1.8.1 // indirect
	golang.org/x/crypto v0.0.0-20191011191535-87dc89f01550 // indirect
	golang.org/x/mod v0.1.1-0.20191105210325-c90efee705ee // indirect
	golang.org/x/net v0.0.0-20190620200207-3b0461eec859 // indirect
	golang.org/x/sync v0.0.0-20190423024810-112230192c58 // indirect
	golang.org/x/sys v0.0.0-20190412213103-97732733099d // indirect
	golang.org/x/text v0.3.2 // indirect
	golang.org/x/tools v0.0.0-20200225230052-807dcd883420 // indirect
	golang.org/x/xerrors v0.0.0-20191011141410-1b5146add898 // indirect
	gopkg.in/check.v1 v1.0.0-20190902080502-41f04d3bba15 // indirect
	gopkg.in/yaml.v3 v3.0.1 // indirect
)

replace github.com/openacid/slim => /repo
