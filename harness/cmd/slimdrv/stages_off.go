//go:build !verif
// +build !verif

package main

func recordStages(f func()) []string {
	f()
	return []string{"nohooks"}
}
