//go:build verif
// +build verif

package main

import (
	"github.com/golang/protobuf/proto"
	"bufio"
	"crypto/sha1"
	"encoding/hex"
	"encoding/json"
	"fmt"
	"math/rand"
	"os"
	"reflect"
	"runtime"
	"sort"
	"strings"
	"sync"
	"time"
	"unsafe"

	"github.com/openacid/slim/trie"
)

// ---- deep hash of everything reachable from a value (exported or not) ----------

type deepHasher struct {
	h    []byte
	seen map[uintptr]bool
	w    *sha1Writer
}

type sha1Writer struct{ buf []byte }

func (s *sha1Writer) add(b ...byte) { s.buf = append(s.buf, b...) }

func deepHash(v interface{}) string {
	d := &deepHasher{seen: map[uintptr]bool{}, w: &sha1Writer{}}
	d.walk(reflect.ValueOf(v))
	sum := sha1.Sum(d.w.buf)
	return hex.EncodeToString(sum[:8])
}

func (d *deepHasher) walk(v reflect.Value) {
	if !v.IsValid() {
		d.w.add(0)
		return
	}
	switch v.Kind() {
	case reflect.Ptr:
		if v.IsNil() {
			d.w.add(1)
			return
		}
		p := v.Pointer()
		if d.seen[p] {
			d.w.add(2)
			return
		}
		d.seen[p] = true
		d.w.add(3)
		d.walk(v.Elem())
	case reflect.Interface:
		if v.IsNil() {
			d.w.add(4)
			return
		}
		d.w.add(5)
		d.w.add([]byte(v.Elem().Type().String())...)
		d.walk(v.Elem())
	case reflect.Struct:
		for i := 0; i < v.NumField(); i++ {
			if v.Type().Field(i).Name == "XXX_sizecache" {
				// golang/protobuf stores the computed size here with atomic stores during
				// Marshal/Size: a synchronised cache, not part of the observable state
				continue
			}
			f := v.Field(i)
			if !f.CanInterface() && f.CanAddr() {
				f = reflect.NewAt(f.Type(), unsafe.Pointer(f.UnsafeAddr())).Elem()
			}
			d.w.add(byte(i))
			d.walk(f)
		}
	case reflect.Slice:
		if v.IsNil() {
			d.w.add(6)
			return
		}
		d.w.add(7)
		d.w.add([]byte(fmt.Sprint(v.Len()))...)
		if v.Type().Elem().Kind() == reflect.Uint8 {
			d.w.add(v.Bytes()...)
			return
		}
		for i := 0; i < v.Len(); i++ {
			d.walk(v.Index(i))
		}
	case reflect.Array:
		for i := 0; i < v.Len(); i++ {
			d.walk(v.Index(i))
		}
	case reflect.Map:
		if v.IsNil() {
			d.w.add(8)
			return
		}
		// order independent: hash entries separately, sort
		ents := []string{}
		for _, k := range v.MapKeys() {
			sub := &deepHasher{seen: d.seen, w: &sha1Writer{}}
			sub.walk(k)
			sub.walk(v.MapIndex(k))
			ents = append(ents, string(sub.w.buf))
		}
		sort.Strings(ents)
		for _, e := range ents {
			d.w.add([]byte(e)...)
		}
	case reflect.String:
		d.w.add([]byte(v.String())...)
		d.w.add(0xfe)
	case reflect.Bool:
		if v.Bool() {
			d.w.add(1)
		} else {
			d.w.add(0)
		}
	case reflect.Int, reflect.Int8, reflect.Int16, reflect.Int32, reflect.Int64:
		d.w.add([]byte(fmt.Sprint(v.Int(), ";"))...)
	case reflect.Uint, reflect.Uint8, reflect.Uint16, reflect.Uint32, reflect.Uint64, reflect.Uintptr:
		d.w.add([]byte(fmt.Sprint(v.Uint(), ";"))...)
	case reflect.Float32, reflect.Float64:
		d.w.add([]byte(fmt.Sprint(v.Float(), ";"))...)
	case reflect.Func, reflect.Chan, reflect.UnsafePointer:
		d.w.add(9)
	default:
		d.w.add(10)
	}
}

// ---- read calls -------------------------------------------------------------------

// userGate, when set, is called by the scanning reader between RECEIVING a key/value slice
// from the library and COPYING it: a consumer may hold the slice until its own next call on
// the same iterator, whatever other readers and iterators do meanwhile.  In gated runs it is
// a scheduler gate like the library's verification points; in the stress runs it yields.
var userGate func()

func holdSlice() {
	if g := userGate; g != nil {
		g()
	}
}

type readCall struct {
	API string `json:"api"`
	Q   string `json:"-"`
	Q2  string `json:"-"`
	N   int    `json:"n"` // scan: stop after n; iter: number of next() calls
}

func doCall(c *TrieCase, st *trie.SlimTrie, rc readCall) (res string) {
	defer func() {
		if r := recover(); r != nil {
			res = "PANIC: " + fmt.Sprint(r)
		}
	}()
	var out interface{}
	switch rc.API {
	case "GetID":
		out = st.GetID(rc.Q)
	case "Get":
		v, f := st.Get(rc.Q)
		out = []interface{}{f, valBytes(v)}
	case "RangeGet":
		v, f := st.RangeGet(rc.Q)
		out = []interface{}{f, valBytes(v)}
	case "Search":
		l, e, r := st.Search(rc.Q)
		out = []interface{}{valBytes(l), valBytes(e), valBytes(r)}
	case "GetI":
		switch c.Enc {
		case "i8":
			v, f := st.GetI8(rc.Q)
			out = []interface{}{f, v}
		case "i16":
			v, f := st.GetI16(rc.Q)
			out = []interface{}{f, v}
		case "i32":
			v, f := st.GetI32(rc.Q)
			out = []interface{}{f, v}
		case "i64":
			v, f := st.GetI64(rc.Q)
			out = []interface{}{f, v}
		default:
			out = st.GetID(rc.Q)
		}
	case "ScanFrom":
		ks := [][]int{}
		n := 0
		st.ScanFrom(rc.Q, true, true, func(k, v []byte) bool {
			holdSlice()
			ks = append(ks, bints(k), bytesOrNil(v))
			n++
			return n < rc.N
		})
		out = ks
	case "ScanFromTo":
		ks := [][]int{}
		st.ScanFromTo(rc.Q, false, rc.Q2, true, false, func(k, v []byte) bool {
			holdSlice()
			ks = append(ks, bints(k))
			return true
		})
		out = ks
	case "Iter":
		nxt := st.NewIter(rc.Q, true, true)
		ks := [][]int{}
		for i := 0; i < rc.N; i++ {
			k, v := nxt()
			holdSlice()
			ks = append(ks, bytesOrNil(k), bytesOrNil(v))
		}
		out = ks
	case "Stat":
		out = st.Stat()
	case "String":
		out = hashHex([]byte(st.String()))
	case "Marshal":
		b, err := st.Marshal()
		out = []interface{}{hashHex(b), len(b), err == nil}
	case "ProtoMarshal":
		// the same instance through the protobuf interfaces it implements
		b, err := proto.Marshal(st)
		out = []interface{}{hashHex(b), len(b), err == nil, proto.Size(st)}
	}
	b, _ := json.Marshal(out)
	return string(b)
}

// soloCall: the reference run of a call, alone on the twin instance, under the watchdog
func soloCall(c *TrieCase, st *trie.SlimTrie, rc readCall) (res string) {
	defer func() {
		if r := recover(); r != nil {
			res = "PANIC: " + fmt.Sprint(r)
		}
	}()
	watched(func() { res = doCall(c, st, rc) })
	return
}

func pickCalls(r *rand.Rand, c *TrieCase, k int, scansOK bool) []readCall {
	apis := []string{"GetID", "Get", "RangeGet", "Search", "GetID", "Search", "Stat", "String", "Marshal", "GetI", "ProtoMarshal", "RangeGet"}
	if scansOK {
		apis = append(apis, "ScanFrom", "ScanFromTo", "Iter", "Iter", "ScanFrom")
	}
	qs := querySet(r, c.Keys, 40)
	calls := make([]readCall, k)
	for i := range calls {
		rc := readCall{API: apis[r.Intn(len(apis))], Q: qs[r.Intn(len(qs))], Q2: qs[r.Intn(len(qs))], N: 1 + r.Intn(6)}
		if len(c.Keys) > 0 && r.Intn(2) == 0 {
			rc.Q = c.Keys[r.Intn(len(c.Keys))]
		}
		if (rc.API == "ScanFrom" || rc.API == "Iter" || rc.API == "ScanFromTo") && r.Intn(3) == 0 {
			rc.Q = "" // scans from the beginning
		}
		calls[i] = rc
	}
	return calls
}

// ---- gated execution of a schedule ----------------------------------------------------

type gateReader struct {
	id     int
	resume chan bool
	event  chan string // "gate" | "done"
	visits []int
	sites  []string
	result string
}

// runGated executes the calls concurrently, but lets exactly one reader run between
// two of its verification points, in the order the schedule gives.
func runGated(c *TrieCase, st *trie.SlimTrie, calls []readCall, sched []int, hashBase string) (got []string, visits [][]int, hashChangedAt int, steps int) {
	readers := make([]*gateReader, len(calls))
	var current *gateReader
	trie.VerifHook = func(site string, a, b int32) {
		g := current
		if g == nil {
			return
		}
		if site == "getNode" {
			g.visits = append(g.visits, int(a))
		}
		g.sites = append(g.sites, site)
		g.event <- "gate"
		<-g.resume
	}
	userGate = func() {
		if g := current; g != nil {
			g.sites = append(g.sites, "hold-slice")
			g.event <- "gate"
			<-g.resume
		}
	}
	defer func() { trie.VerifHook = nil; userGate = nil }()
	var wg sync.WaitGroup
	for i := range calls {
		g := &gateReader{id: i + 1, resume: make(chan bool), event: make(chan string)}
		readers[i] = g
		wg.Add(1)
		go func(g *gateReader, rc readCall) {
			defer wg.Done()
			<-g.resume
			g.result = doCall(c, st, rc)
			g.event <- "done"
		}(g, calls[i])
	}
	done := make([]bool, len(calls))
	hashChangedAt = -1
	hung := false
	step := func(ri int) {
		if done[ri] {
			return
		}
		g := readers[ri]
		current = g
		g.resume <- true
		var ev string
		select {
		case ev = <-g.event:
		case <-time.After(hangLimit):
			// the reader neither reached its next verification point nor returned: a call
			// that does not terminate (or a deadlock) is an observation, not a lost run
			g.result = fmt.Sprintf("\"HANG: the call did not return within %v\"", hangLimit)
			hung = true
			ev = "done"
		}
		current = nil
		steps++
		if ev == "done" {
			done[ri] = true
		}
		// all readers are blocked now: the shared structure must be as it was
		if hashChangedAt < 0 && steps%3 == 0 {
			if deepHash(st) != hashBase {
				hashChangedAt = steps
			}
		}
	}
	for _, r := range sched {
		if r >= 1 && r <= len(calls) {
			step(r - 1)
		}
	}
	for {
		left := false
		for i := range calls {
			if !done[i] {
				left = true
				step(i)
			}
		}
		if !left {
			break
		}
	}
	if !hung {
		wg.Wait()
	}
	if hashChangedAt < 0 && !hung && deepHash(st) != hashBase {
		hashChangedAt = steps
	}
	for _, g := range readers {
		got = append(got, g.result)
		visits = append(visits, g.visits)
	}
	return
}

// The reference results ("the same call run alone") are taken on a TWIN instance built
// from the same input, so that the instance under test is untouched when the
// concurrent phase starts: state that a first call initialises lazily is then
// initialised under concurrency, not by the reference run.
func concEv(c *TrieCase, st, twin *trie.SlimTrie, calls []readCall, sched []int) Ev {
	solo := make([]string, len(calls))
	for i, rc := range calls {
		solo[i] = soloCall(c, twin, rc)
	}
	base := deepHash(st)
	got, visits, hc, steps := runGated(c, st, calls, sched, base)
	rs := []interface{}{}
	for i, rc := range calls {
		v := visits[i]
		if v == nil {
			v = []int{}
		}
		rs = append(rs, Ev{"api": rc.API, "q": ints(rc.Q), "q2": ints(rc.Q2), "n": rc.N, "solo": solo[i], "got": got[i], "visits": v})
	}
	return Ev{"ev": "conc", "sched": sched, "readers": rs, "hashchanged": hc, "steps": steps}
}

func readSchedules(path string) [][]int {
	f, err := os.Open(path)
	if err != nil {
		panic(err)
	}
	defer f.Close()
	out := [][]int{}
	sc := bufio.NewScanner(f)
	sc.Buffer(make([]byte, 1<<20), 1<<26)
	for sc.Scan() {
		ln := strings.TrimSpace(sc.Text())
		if ln == "" {
			continue
		}
		var s []int
		if err := json.Unmarshal([]byte(ln), &s); err != nil {
			panic(err)
		}
		out = append(out, s)
	}
	return out
}

// ---- free-running stress (meant for the -race build) ------------------------------------

// burstGroups: the read APIs by kind.  A focused burst lets every goroutine make calls of ONE
// kind with many distinct arguments in a tight loop: state that one API family shares
// between calls (a cache keyed by the argument, a memo, a pooled buffer) is hit at a rate the
// mixed runs never reach -- also when it is properly locked and only its logic is wrong.
var burstGroups = map[string][]string{
	"point": {"GetID", "Get", "RangeGet", "Search", "GetI", "RangeGet", "Search"},
	"scan":  {"ScanFrom", "ScanFromTo", "Iter", "Iter", "ScanFrom"},
	"whole": {"Stat", "String", "Marshal", "ProtoMarshal"},
}

func pickGroupCalls(r *rand.Rand, c *TrieCase, k int, group string) []readCall {
	apis := burstGroups[group]
	qs := querySet(r, c.Keys, 60)
	calls := make([]readCall, k)
	for i := range calls {
		rc := readCall{API: apis[r.Intn(len(apis))], Q: qs[r.Intn(len(qs))], Q2: qs[r.Intn(len(qs))], N: 1 + r.Intn(5)}
		if len(c.Keys) > 0 && r.Intn(2) == 0 {
			rc.Q = c.Keys[r.Intn(len(c.Keys))]
		}
		calls[i] = rc
	}
	return calls
}

func stressEv(c *TrieCase, st, twin *trie.SlimTrie, r *rand.Rand, nG int, dur time.Duration, scansOK bool) Ev {
	return stressEvGroup(c, st, twin, r, nG, dur, scansOK, "")
}

func stressEvGroup(c *TrieCase, st, twin *trie.SlimTrie, r *rand.Rand, nG int, dur time.Duration, scansOK bool, group string) Ev {
	trie.VerifHook = nil
	userGate = nil
	calls := pickCalls(r, c, 24, scansOK)
	if group != "" {
		calls = pickGroupCalls(r, c, 48, group)
	}
	solo := make([]string, len(calls))
	for i, rc := range calls {
		solo[i] = soloCall(c, twin, rc)
	}
	base := deepHash(st)
	userGate = func() { runtime.Gosched() }
	defer func() { userGate = nil }()
	var wg sync.WaitGroup
	var mu sync.Mutex
	mismatch, total := 0, 0
	first := ""
	stop := time.Now().Add(dur)
	for g := 0; g < nG; g++ {
		wg.Add(1)
		go func(seed int64) {
			defer wg.Done()
			rr := rand.New(rand.NewSource(seed))
			n, bad := 0, 0
			f := ""
			for time.Now().Before(stop) {
				i := rr.Intn(len(calls))
				res := doCall(c, st, calls[i])
				n++
				if res != solo[i] {
					bad++
					if f == "" {
						f = calls[i].API + ": " + res
					}
				}
				if rr.Intn(4) == 0 {
					runtime.Gosched()
				}
			}
			mu.Lock()
			mismatch += bad
			total += n
			if first == "" {
				first = f
			}
			mu.Unlock()
		}(r.Int63())
	}
	allDone := make(chan bool)
	go func() { wg.Wait(); close(allDone) }()
	select {
	case <-allDone:
	case <-time.After(time.Until(stop) + 2*hangLimit):
		// goroutines that never come back: a deadlock or a call that does not terminate
		// under concurrency.  The run goes on; this instance is not touched again.
		mu.Lock()
		mismatch++
		if first == "" {
			first = "HANG: reader goroutines did not return (deadlock or non-terminating call)"
		}
		mu.Unlock()
		mu.Lock()
		m2, t2, f2 := mismatch, total, first
		mu.Unlock()
		return Ev{"ev": "stress", "goroutines": nG, "calls": t2, "mismatch": m2, "first": f2, "hashchanged": 0, "group": group}
	}
	if len(first) > 200 {
		first = first[:200]
	}
	return Ev{"ev": "stress", "goroutines": nG, "calls": total, "mismatch": mismatch, "first": first, "hashchanged": b2i(deepHash(st) != base), "group": group}
}

// freshTwin: another instance with the same content (rebuilt, or reloaded from bytes)
func freshTwin(c *TrieCase, st *trie.SlimTrie, loaded bool) *trie.SlimTrie {
	if c.legacyLayout != "" {
		if b, ok := legacyBytes(c, c.legacyLayout); ok {
			if st2, _, _ := loadLegacy(c, b, false); st2 != nil {
				return st2
			}
		}
	}
	if loaded {
		if st2, _, _ := Reload(c, st); st2 != nil {
			return st2
		}
	}
	if st2, _, _ := c.Build(); st2 != nil {
		return st2
	}
	return st
}

// ---- generator ---------------------------------------------------------------------------

// burstMode: the stress phase makes focused bursts (one API kind per run) instead of mixed runs
var burstMode bool

func genConc(t *Tracer, m *Meta, tier string, seed int64, schedFile string, stressOnly bool) {
	r := rand.New(rand.NewSource(seed*67867967 + 11))
	quick := tier == "quick"
	mkInstances := func(n int) []*TrieCase {
		out := []*TrieCase{}
		for i := 0; i < n; i++ {
			fam := familyNames[r.Intn(len(familyNames))]
			keys := genKeys(r, fam, 5+r.Intn(120), 1+r.Intn(8))
			if i == 0 || i%4 == 1 {
				// long shared prefixes and long distinct tails (stored prefixes and leaf tails of
				// 36..120 bytes): anything the read path sizes by "short" inputs
				keys = longify(r, keys)
			}
			enc := []string{"i32", "s16", "none", "i64"}[r.Intn(4)]
			o4 := all16[r.Intn(16)]
			if i%2 == 0 {
				o4 = [4]int{r.Intn(2), 0, 0, 1}
			}
			c := &TrieCase{Keys: keys, Enc: enc, Vals: mkVals(r, "C11", enc, len(keys)), Opt4: o4}
			if i%3 == 2 {
				// an instance that will be loaded from a 0.5.10/0.5.11 stream
				layout := []string{"v0510-nopref-0.5.10", "v0510-innpref-0.5.11", "v0510-allpref-0.5.10"}[r.Intn(3)]
				c.Enc = []string{"i32", "i64"}[r.Intn(2)]
				c.Vals = mkVals(r, "C11", c.Enc, len(keys))
				c.Opt4 = layoutOpt(layout, r.Intn(2))
				c.legacyLayout = layout
			}
			out = append(out, c)
		}
		return out
	}
	startCase := func(c *TrieCase, loaded bool) *trie.SlimTrie {
		t.NextCase()
		m.countCase(c)
		st, ec, pan := c.Build()
		t.Emit(c.NewEv(ec, pan))
		if st == nil {
			return nil
		}
		if loaded {
			if c.legacyLayout != "" {
				// loaded from a 0.5.10/0.5.11 stream: the loader rewrites the stored prefixes
				// and rebuilds the leaf array once, inside Unmarshal
				if b, ok := legacyBytes(c, c.legacyLayout); ok {
					st2, ec, pan := loadLegacy(c, b, false)
					t.Emit(Ev{"ev": "legacyload", "layout": c.legacyLayout, "err": ec, "pan": pan})
					m.class("instance:legacy-loaded")
					return st2
				}
			}
			st2, ec, pan := Reload(c, st)
			t.Emit(Ev{"ev": "load", "err": ec, "pan": pan})
			m.class("instance:loaded")
			st = st2
		} else {
			m.class("instance:fresh")
		}
		return st
	}
	if stressOnly && burstMode {
		nInst, dur := 6, 160*time.Millisecond
		if !quick {
			nInst, dur = 24, 600*time.Millisecond
		}
		for i, c := range mkInstances(nInst) {
			st := startCase(c, i%2 == 1 || c.legacyLayout != "")
			if st == nil {
				continue
			}
			cpl := c.Opt4[3] == 1 || (c.Opt4[1] == 1 && c.Opt4[2] == 1)
			twin := freshTwin(c, st, i%2 == 1)
			for _, group := range []string{"point", "scan", "whole"} {
				if group == "scan" && !(cpl || len(c.Keys) == 0) {
					continue
				}
				for _, nG := range []int{4, 16} {
					fresh := freshTwin(c, st, i%2 == 1)
					t.Emit(stressEvGroup(c, fresh, twin, r, nG, dur, true, group))
					m.Calls++
				}
				m.class("burst:" + group)
			}
		}
		return
	}
	if stressOnly {
		nInst, dur := 4, 1500*time.Millisecond
		if !quick {
			nInst, dur = 16, 8*time.Second
		}
		for i, c := range mkInstances(nInst) {
			st := startCase(c, i%2 == 1 || c.legacyLayout != "")
			if st == nil {
				continue
			}
			nG := []int{2, 4, 8, 16, 32}[i%5]
			cpl := c.Opt4[3] == 1 || (c.Opt4[1] == 1 && c.Opt4[2] == 1)
			twin := freshTwin(c, st, i%2 == 1)
			// several short rounds, each on an untouched instance: first-use effects
			rounds := 6
			for k := 0; k < rounds; k++ {
				fresh := freshTwin(c, st, i%2 == 1)
				t.Emit(stressEv(c, fresh, twin, r, nG, dur/time.Duration(rounds), cpl || len(c.Keys) == 0))
			}
			m.Calls++
			m.class(fmt.Sprintf("stress:%d-goroutines", nG))
		}
		return
	}
	scheds := readSchedules(schedFile)
	if len(scheds) == 0 {
		panic("no schedules from the specification")
	}
	m.Extra["schedules_from_spec"] = len(scheds)
	budget := 360
	if !quick {
		budget = 12000
	}
	if len(scheds) > budget {
		r.Shuffle(len(scheds), func(i, j int) { scheds[i], scheds[j] = scheds[j], scheds[i] })
		scheds = scheds[:budget]
	}
	insts := mkInstances(12)
	per := len(scheds)/len(insts) + 1
	for i, c := range insts {
		st := startCase(c, i%3 == 1 || c.legacyLayout != "")
		if st == nil {
			continue
		}
		cpl := c.Opt4[3] == 1 || (c.Opt4[1] == 1 && c.Opt4[2] == 1)
		lo := i * per
		for j := lo; j < lo+per && j < len(scheds); j++ {
			nR := 0
			for _, x := range scheds[j] {
				if x > nR {
					nR = x
				}
			}
			calls := pickCalls(r, c, nR, cpl || len(c.Keys) == 0)
			t.Emit(concEv(c, freshTwin(c, st, i%3 == 1), st, calls, scheds[j]))
			m.Calls += nR
			key := fmt.Sprint(i, scheds[j])
			if !m.seen[key] {
				m.seen[key] = true
				m.Distinct++
			}
			for _, rc := range calls {
				m.class("gated:" + rc.API)
			}
			if len(m.Samples) < 3 {
				m.Samples = append(m.Samples, Ev{"schedule": scheds[j], "calls": calls, "keys": len(c.Keys)})
			}
		}
	}
}

// longify wraps every key in one of two long shared prefixes and gives it a long tail of
// its own; the result is sorted and free of duplicates.
func longify(r *rand.Rand, keys []string) []string {
	pre := []string{randBytes(r, 40+r.Intn(30), nil), randBytes(r, 36+r.Intn(40), []byte("ab"))}
	seen := map[string]bool{}
	out := []string{}
	for _, k := range keys {
		nk := pre[len(k)%2] + k + randBytes(r, 36+r.Intn(50), nil)
		if !seen[nk] {
			seen[nk] = true
			out = append(out, nk)
		}
	}
	sort.Strings(out)
	return out
}

// ---- replay ----------------------------------------------------------------------------

func concReplay(t *Tracer, name string, e map[string]interface{}, c **TrieCase, stp interface{}) bool {
	st, _ := stp.(*trie.SlimTrie)
	switch name {
	case "conc":
		if st == nil {
			return true
		}
		calls := []readCall{}
		for _, x := range e["readers"].([]interface{}) {
			r := x.(map[string]interface{})
			calls = append(calls, readCall{API: r["api"].(string), Q: fromInts(toIntSlice(r["q"])), Q2: fromInts(toIntSlice(r["q2"])), N: int(r["n"].(float64))})
		}
		t.Emit(concEv(*c, freshTwin(*c, st, false), st, calls, toIntSlice(e["sched"])))
		return true
	case "stress":
		if st == nil {
			return true
		}
		cpl := (*c).Opt4[3] == 1 || ((*c).Opt4[1] == 1 && (*c).Opt4[2] == 1)
		r := rand.New(rand.NewSource(99))
		var worst Ev
		for i := 0; i < 8; i++ {
			group, _ := e["group"].(string)
			ev := stressEvGroup(*c, freshTwin(*c, st, false), st, r, int(e["goroutines"].(float64)), 700*time.Millisecond, cpl || len((*c).Keys) == 0, group)
			if worst == nil || ev["mismatch"].(int) > worst["mismatch"].(int) {
				worst = ev
			}
			if ev["mismatch"].(int) > 0 {
				break
			}
		}
		t.Emit(worst)
		return true
	case "racereport":
		return true
	case "legacyload":
		(*c).legacyLayout = e["layout"].(string)
		return true
	}
	return false
}
