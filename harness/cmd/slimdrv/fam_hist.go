package main

import (
	"bufio"
	"crypto/sha1"
	"encoding/binary"
	"encoding/hex"
	"encoding/json"
	"fmt"
	"math/rand"
	"os"
	"sort"
	"strings"
	"sync"

	"github.com/golang/protobuf/proto"
	"github.com/openacid/slim/encode"
	"github.com/openacid/slim/trie"
)

// Histories on one instance (C05 residue, C07 rejected loads, C20 buffers).
// The abstract histories come from TLC (MC_API prints them); the harness gives
// each abstract operation a concrete stream, cut point or version string.

type poolStream struct {
	SID    int
	Case   *TrieCase
	Layout string // "cur", later "v0510-*", "v3-*"
	Ver    string
	Bytes  []byte
	Secs   []int // body lengths
}

func hashHex(b []byte) string {
	h := sha1.Sum(b)
	return hex.EncodeToString(h[:8])
}

func sectionLens(b []byte) []int {
	secs := []int{}
	off := 0
	for off+32 <= len(b) {
		body := int(binary.LittleEndian.Uint64(b[off+24 : off+32]))
		secs = append(secs, body)
		off += 32 + body
	}
	return secs
}

func headerVersion(b []byte) string {
	v := b[:16]
	i := len(v)
	for i > 0 && v[i-1] == 0 {
		i--
	}
	return string(v[:i])
}

func withVersion(b []byte, ver string) []byte {
	out := append([]byte{}, b...)
	for i := 0; i < 16; i++ {
		out[i] = 0
	}
	copy(out[:16], ver)
	return out
}

func (p *poolStream) Ev() Ev {
	e := p.Case.NewEv("", "")
	e["ev"] = "pool"
	e["sid"] = p.SID
	e["layout"] = p.Layout
	e["ver"] = ints(p.Ver)
	e["secs"] = p.Secs
	e["len"] = len(p.Bytes)
	e["v3"] = b2i(strings.HasPrefix(p.Layout, "v3-"))
	return e
}

// mkPool: 5 streams in the roles the specification's pool has: empty, single key,
// small default, small complete, larger.  One encoder for the whole pool.
func mkPool(r *rand.Rand, variant int) []*poolStream {
	encs := []string{"i32", "s16", "i64", "none", "i16", "b4"}
	enc := encs[variant%len(encs)]
	// layout classes per variant: 0-2 current only; 3: 0.5.10/0.5.11; 4: three-section; 5: mixed
	layoutClass := []string{"cur", "cur", "cur", "v0510", "v3", "mixed"}[variant%6]
	if layoutClass != "cur" {
		enc = []string{"i32", "i64", "i16", "b4"}[variant%4] // old layouts: fixed-width values
	}
	keysets := [][]string{
		{},
		{[]string{"a", "", "\x00\xff", "single-key"}[r.Intn(4)]},
		genKeys(r, []string{"ascii", "twosym", "nibdiv", "prefixes"}[r.Intn(4)], 3+r.Intn(8), 1+r.Intn(4)),
		genKeys(r, []string{"ascii", "twosym", "nibdiv", "prefixes"}[r.Intn(4)], 3+r.Intn(8), 1+r.Intn(4)),
		genKeys(r, []string{"uniform", "wide", "palette", "samehigh", "twosym", "mixed"}[r.Intn(6)], 60+r.Intn(120), 1+r.Intn(8)),
	}
	opts := [][4]int{all16[r.Intn(16)], all16[r.Intn(16)], {2, 2, 2, 2}, {1, 0, 0, 1}, all16[r.Intn(16)]}
	v10 := []string{"v0510-nopref-0.5.10", "v0510-innpref-0.5.11", "v0510-allpref-0.5.10", "v0510-allpref-0.5.11", "v0510-nopref-0.5.11"}
	pool := []*poolStream{}
	for i, keys := range keysets {
		layout := "cur"
		switch layoutClass {
		case "v0510":
			layout = v10[r.Intn(len(v10))]
		case "v3":
			layout = "v3-" + v3Versions[r.Intn(len(v3Versions))]
		case "mixed":
			layout = []string{"cur", v10[r.Intn(len(v10))], "v3-" + v3Versions[r.Intn(len(v3Versions))]}[r.Intn(3)]
		}
		c := &TrieCase{Keys: keys, Enc: enc, Vals: mkVals(r, "C05", enc, len(keys)), Opt4: opts[i]}
		sid := variant*10 + i + 1
		if layout == "cur" {
			st, _, _ := c.Build()
			if st == nil {
				panic("pool trie does not build")
			}
			b, err := st.Marshal()
			if err != nil {
				panic(err)
			}
			pool = append(pool, &poolStream{SID: sid, Case: c, Layout: "cur", Ver: headerVersion(b), Bytes: b, Secs: sectionLens(b)})
			continue
		}
		if strings.HasPrefix(layout, "v3-") {
			c.Opt4 = [4]int{0, 0, 0, 0}
			c.Vals = valsFromPattern(enc, len(keys), 0, int64(r.Intn(50)))
		} else {
			c.Opt4 = layoutOpt(layout, r.Intn(2))
		}
		pool = append(pool, legacyPoolStream(sid, c, layout))
	}
	return pool
}

func poolQueries(r *rand.Rand, pool []*poolStream, limit int) []string {
	all := []string{}
	for _, p := range pool {
		qs := querySet(r, p.Case.Keys, 0)
		if len(qs) > limit/len(pool) {
			r.Shuffle(len(qs), func(i, j int) { qs[i], qs[j] = qs[j], qs[i] })
			qs = qs[:limit/len(pool)]
		}
		all = append(all, qs...)
		// keys of every content: residue of an earlier load shows on them
		for i, k := range p.Case.Keys {
			if i < 12 {
				all = append(all, k)
			}
		}
	}
	sort.Strings(all)
	return uniq(all)
}

// battery observes everything C05 lists on one instance.
func battery(c *TrieCase, st *trie.SlimTrie, qs []string) Ev {
	o := ObsEv(c, st, "x", qs, nil)
	delete(o, "ev")
	s := StatEv(st)
	o["levels"], o["keycnt"], o["nodecnt"], o["statpan"] = s["levels"], s["keycnt"], s["nodecnt"], s["pan"]
	text, tpan := "", ""
	func() {
		defer func() {
			if r := recover(); r != nil {
				tpan = fmt.Sprint(r)
			}
		}()
		watched(func() { text = st.String() })
	}()
	o["text"], o["textpan"] = hashHex([]byte(text)), tpan
	sc := runScan(st, scanReq{API: "from", Start: "", Incl: true, WithValue: true, Stop: -1})
	jb, _ := json.Marshal([]interface{}{sc["yk"], sc["yv"]})
	o["scan"], o["scancnt"], o["scanpan"] = hashHex(jb), len(sc["yk"].([][]int)), b2i(sc["pan"].(string) != "")
	mh, ml := "", -1
	func() {
		defer func() { recover() }()
		var b []byte
		var err error
		watched(func() { b, err = st.Marshal() })
		if err == nil {
			mh, ml = hashHex(b), len(b)
		}
	}()
	o["mhash"], o["mlen"] = mh, ml
	return o
}

type histRunner struct {
	t    *Tracer
	m    *Meta
	r    *rand.Rand
	pool []*poolStream
	qs   []string
	enc  *TrieCase // carries the encoder of the pool
	c20  bool
	c07  bool
}

// the pool is defined once per trace chunk (the specification keeps it)
func (h *histRunner) definePool() {
	if h.t.Once(fmt.Sprint("pool-", h.pool[0].SID)) {
		for _, p := range h.pool {
			h.t.Emit(p.Ev())
		}
	}
}

func (h *histRunner) fresh(src *poolStream) *trie.SlimTrie {
	st, err := trie.NewSlimTrie(h.enc.encoder(), nil, nil)
	if err != nil {
		panic(err)
	}
	if src != nil {
		if err := st.Unmarshal(append([]byte{}, src.Bytes...)); err != nil {
			panic("fresh load of a pool stream failed: " + err.Error())
		}
	}
	return st
}

// marshalEv calls Marshal, logs sizes and digests, and returns the caller-owned output
func (h *histRunner) marshalEv(st *trie.SlimTrie, src *poolStream) []byte {
	var out []byte
	pan, psize, pmh := "", -1, ""
	func() {
		defer func() {
			if r := recover(); r != nil {
				pan = fmt.Sprint(r)
			}
		}()
		var err error
		out, err = st.Marshal()
		if err != nil {
			pan = "error: " + err.Error()
			return
		}
		psize = proto.Size(st)
		if b2, err := proto.Marshal(st); err == nil {
			pmh = hashHex(b2)
		}
	}()
	ev := Ev{"ev": "marshal", "pan": pan, "mhash": hashHex(out), "mlen": len(out), "psize": psize, "pmhash": pmh,
		"srclen": -1, "srchash": ""}
	if src != nil {
		ev["srclen"], ev["srchash"] = len(src.Bytes), hashHex(src.Bytes)
	}
	h.t.Emit(ev)
	return out
}

func (h *histRunner) bat(st *trie.SlimTrie, src *poolStream) {
	own := battery(h.enc, st, h.qs)
	fr := battery(h.enc, h.fresh(src), h.qs)
	h.t.Emit(Ev{"ev": "bat", "qs": intsList(h.qs), "own": own, "fresh": fr})
	h.m.Calls += 4 * len(h.qs)
}

func scribble(r *rand.Rand, b []byte, pattern int) {
	for i := range b {
		switch pattern {
		case 1:
			b[i] = 0
		case 2:
			b[i] = 0xff
		case 3:
			b[i] = byte(r.Intn(256))
		}
	}
}

var newerVersions = []string{"0.5.13", "0.5.20", "0.6.0", "0.10.0", "1.0.1", "1.1.0", "2.0.0", "0.5.7", "0.5.0", "0.4.3", "0.0.0", "10.0.0", "0.5.120", "0.5.1", "0.50.12"}
var preVersions = []string{"0.5.12-rc1", "0.5.12-0", "0.5.12-alpha.1", "1.0.0-beta", "0.5.10-x", "0.5.9-1.2.3", "0.5.12-rc+b1"}
var malformedVersions = []string{"abc", "", "0.5", "0.5.", ".5.12", "0..12", "0.5.12.", "0.5.12.1", "v0.5.12", "0.5.012", "00.5.12", "0.05.12", " 0.5.12", "0.5.12 ", "0.5.12-", "0.5.12+", "0.5.12-a..b", "0.5.12+a..b", "0.5.x", "-1.0.0", "0.5.12\x000", "0.5.12-\x01", "1.0.0.0.0.0.0.00", "0123456789abcdef", "9999999999999999", "0.5.12-01", "0,5,12", "0.5.12+\xff"}
var metaVersions = []string{"0.5.12+meta", "0.5.12+1", "0.5.12+a.b-c", "0.5.11+x", "0.5.10+build.7"}

// libVer is the version the library under test writes into its own streams (read from the
// header of a fresh Marshal).  The compatible set of C07 is the historical list plus this
// version, so a release that bumps its version is not mistaken for a newer, unknown one.
var libVerOnce sync.Once
var libVerStr string

func libVer() string {
	libVerOnce.Do(func() {
		libVerStr = "0.5.12"
		st, err := trie.NewSlimTrie(encode.I32{}, []string{"a"}, []int32{1})
		if err == nil {
			if b, err := st.Marshal(); err == nil && len(b) >= 32 {
				libVerStr = headerVersion(b)
			}
		}
	})
	return libVerStr
}

// newerThanLib: versions outside the compatible set - the fixed list (without the
// library's own version) plus the successors of the library's own version
func newerThanLib() []string {
	out := []string{}
	for _, v := range newerVersions {
		if v != libVer() {
			out = append(out, v)
		}
	}
	var a, b, c int
	if n, _ := fmt.Sscanf(libVer(), "%d.%d.%d", &a, &b, &c); n == 3 {
		out = append(out, fmt.Sprintf("%d.%d.%d", a, b, c+1), fmt.Sprintf("%d.%d.%d", a, b, c+7), fmt.Sprintf("%d.%d.0", a, b+1),
			fmt.Sprintf("%d.%d.%d", a+1, b, c), fmt.Sprintf("%d.%d.%d-rc1", a, b, c))
	}
	return out
}

func (h *histRunner) run(hist [][]interface{}) {
	h.t.NextCase()
	h.m.Cases++
	h.t.Emit(Ev{"ev": "case", "enc": h.enc.Enc, "hist": hist})
	h.definePool()
	st, err := trie.NewSlimTrie(h.enc.encoder(), nil, nil)
	if err != nil {
		panic(err)
	}
	h.t.Emit(Ev{"ev": "inst"})
	var src *poolStream
	var lastOut []byte
	for _, op := range hist {
		kind := op[0].(string)
		sid := int(op[1].(float64))
		h.m.class("op:" + kind)
		switch kind {
		case "reset":
			pan := ""
			func() {
				defer func() {
					if r := recover(); r != nil {
						pan = fmt.Sprint(r)
					}
				}()
				st.Reset()
			}()
			h.t.Emit(Ev{"ev": "reset", "pan": pan})
			src = nil
		case "scribble":
			// Marshal, then overwrite the returned bytes
			out := h.marshalEv(st, src)
			pat := 1 + h.r.Intn(3)
			h.bat(st, src)
			scribble(h.r, out, pat)
			if lastOut != nil {
				scribble(h.r, lastOut, pat)
			}
			lastOut = out
			h.t.Emit(Ev{"ev": "scribble", "target": "out", "pattern": pat})
		default:
			p := h.pool[sid-1] // abstract sid 1..5 -> the stream in that role
			buf := append([]byte{}, p.Bytes...)
			cut, ver := -1, ""
			switch kind {
			case "unm":
				if h.r.Intn(6) == 0 && p.Layout == "cur" {
					// another compatible version of the same layout class loads the same
					ver = libVer()
				}
			case "cut-header":
				cut = h.r.Intn(32)
				if h.r.Intn(4) == 0 {
					cut = []int{0, 1, 15, 16, 17, 31}[h.r.Intn(6)]
				}
			case "cut-body":
				if len(buf) <= 32 {
					cut = h.r.Intn(32)
				} else {
					cut = 32 + h.r.Intn(len(buf)-32)
					if h.r.Intn(4) == 0 {
						cut = []int{32, 33, len(buf) - 1, len(buf) - 2}[h.r.Intn(4)]
						if cut < 32 {
							cut = 32
						}
					}
				}
			case "newer":
				nv := newerThanLib()
				ver = nv[h.r.Intn(len(nv))]
			case "prerelease":
				ver = preVersions[h.r.Intn(len(preVersions))]
			case "malformed":
				ver = malformedVersions[h.r.Intn(len(malformedVersions))]
			}
			if ver != "" || kind == "malformed" {
				if kind != "unm" || ver != "" {
					buf = withVersion(buf, ver)
				}
			}
			if cut >= 0 {
				buf = buf[:cut:cut]
			}
			sent := append([]byte{}, buf...)
			ec, pan := "", ""
			// a quarter of the loads go through proto.Unmarshal(buf, st), which calls
			// st.Reset() and then st.Unmarshal(buf)
			viaProto := h.r.Intn(4) == 0
			stages := recordStages(func() {
				defer func() {
					if r := recover(); r != nil {
						pan = fmt.Sprint(r)
					}
				}()
				if viaProto {
					watched(func() { ec = errClass(proto.Unmarshal(buf, st)) })
				} else {
					watched(func() { ec = errClass(st.Unmarshal(buf)) })
				}
			})
			modified := string(sent) != string(buf)
			effVer := p.Ver
			if len(buf) >= 16 {
				effVer = headerVersion(buf)
			}
			h.t.Emit(Ev{"ev": "unm", "cur": ints(libVer()), "sid": p.SID, "cut": cut, "ver": ints(effVer), "total": len(p.Bytes), "err": ec, "pan": pan,
				"bufmodified": b2i(modified), "kind": kind, "stages": stages, "viaproto": b2i(viaProto)})
			if ec == "" && pan == "" {
				src = p
				if cut >= 0 {
					// a cut stream was accepted: whatever it holds, compare with a fresh
					// load of the same bytes is impossible here; the spec flags the outcome
					src = nil
				}
			} else {
				src = nil
			}
			if h.c20 {
				// the FIRST Marshal after the load, taken before any other observation
				// touches the instance; it is overwritten together with the input buffer
				first := h.marshalEv(st, src)
				h.bat(st, src)
				pat := 1 + h.r.Intn(3)
				scribble(h.r, buf, pat)
				h.t.Emit(Ev{"ev": "scribble", "target": "in", "pattern": pat})
				if first != nil {
					scribble(h.r, first, pat)
					h.t.Emit(Ev{"ev": "scribble", "target": "out", "pattern": pat})
				}
			}
		}
		h.bat(st, src)
	}
}

// one concrete load attempt on an instance that already holds other data
func (h *histRunner) attempt(pre *poolStream, p *poolStream, cut int, ver string, setVer bool) {
	h.t.NextCase()
	h.m.Cases++
	h.t.Emit(Ev{"ev": "case", "enc": h.enc.Enc, "hist": []interface{}{}})
	h.definePool()
	st, err := trie.NewSlimTrie(h.enc.encoder(), nil, nil)
	if err != nil {
		panic(err)
	}
	h.t.Emit(Ev{"ev": "inst"})
	if pre != nil {
		ec := errClass(st.Unmarshal(append([]byte{}, pre.Bytes...)))
		h.t.Emit(Ev{"ev": "unm", "cur": ints(libVer()), "sid": pre.SID, "cut": -1, "ver": ints(pre.Ver), "total": len(pre.Bytes), "err": ec, "pan": "", "bufmodified": 0, "kind": "unm", "stages": []string{"skip"}, "viaproto": 0})
	}
	buf := append([]byte{}, p.Bytes...)
	if setVer {
		buf = withVersion(buf, ver)
	}
	if cut >= 0 {
		buf = buf[:cut:cut]
	}
	sent := append([]byte{}, buf...)
	ec, pan := "", ""
	stages := recordStages(func() {
		defer func() {
			if r := recover(); r != nil {
				pan = fmt.Sprint(r)
			}
		}()
		watched(func() { ec = errClass(st.Unmarshal(buf)) })
	})
	effVer := p.Ver
	if len(buf) >= 16 {
		effVer = headerVersion(buf)
	}
	h.t.Emit(Ev{"ev": "unm", "cur": ints(libVer()), "sid": p.SID, "cut": cut, "ver": ints(effVer), "total": len(p.Bytes), "err": ec, "pan": pan,
		"bufmodified": b2i(string(sent) != string(buf)), "kind": "attempt", "stages": stages, "viaproto": 0})
	var src *poolStream
	if ec == "" && pan == "" && cut < 0 {
		src = p
	}
	h.bat(st, src)
	h.m.Calls++
}

// protobuf top-level field boundaries of a body (offsets relative to the stream)
func fieldBoundaries(b []byte) []int {
	out := []int{}
	off := 0
	for off+32 <= len(b) {
		body := int(binary.LittleEndian.Uint64(b[off+24 : off+32]))
		out = append(out, off, off+32)
		i, end := off+32, off+32+body
		for i < end && i < len(b) {
			out = append(out, i)
			// tag varint
			tag, n := binary.Uvarint(b[i:])
			if n <= 0 {
				break
			}
			i += n
			switch tag & 7 {
			case 0:
				_, n := binary.Uvarint(b[i:])
				if n <= 0 {
					i = end
				} else {
					i += n
				}
			case 2:
				l, n := binary.Uvarint(b[i:])
				if n <= 0 {
					i = end
				} else {
					i += n + int(l)
				}
			case 1:
				i += 8
			case 5:
				i += 4
			default:
				i = end
			}
		}
		off = end
	}
	return out
}

// genCuts: fault enumeration for C07 -- every cut point of the small streams, the
// structural and sampled cut points of the larger one, every version string.
func genCuts(t *Tracer, m *Meta, tier string, seed int64, r *rand.Rand, pools [][]*poolStream) {
	quick := tier == "quick"
	for v, pool := range pools {
		if quick && v >= 2 {
			break
		}
		qs := poolQueries(r, pool, 20)
		h := &histRunner{t: t, m: m, r: r, pool: pool, qs: qs, enc: pool[0].Case, c07: true}
		for _, p := range pool {
			cuts := map[int]bool{}
			if len(p.Bytes) <= 400 {
				for c := 0; c < len(p.Bytes); c++ {
					cuts[c] = true
				}
			} else {
				for c := 0; c <= 40; c++ {
					cuts[c] = true
				}
				for _, fb := range fieldBoundaries(p.Bytes) {
					for d := -1; d <= 1; d++ {
						if fb+d >= 0 && fb+d < len(p.Bytes) {
							cuts[fb+d] = true
						}
					}
				}
				for i := 0; i < 60; i++ {
					cuts[r.Intn(len(p.Bytes))] = true
				}
				cuts[len(p.Bytes)-1] = true
			}
			list := []int{}
			for c := range cuts {
				list = append(list, c)
			}
			sort.Ints(list)
			if quick && len(list) > 150 {
				// keep the header and a seeded sample
				keep := list[:40]
				rest := list[40:]
				r.Shuffle(len(rest), func(i, j int) { rest[i], rest[j] = rest[j], rest[i] })
				list = append(keep, rest[:110]...)
			}
			for _, c := range list {
				pre := pool[(p.SID+r.Intn(4))%5]
				h.attempt(pre, p, c, "", false)
				m.class("cut:" + p.Layout)
			}
		}
		// version strings on a full valid stream
		vers := []string{}
		vers = append(vers, newerThanLib()...)
		vers = append(vers, preVersions...)
		vers = append(vers, malformedVersions...)
		vers = append(vers, metaVersions...)
		for i := 0; i <= 13; i++ {
			vers = append(vers, fmt.Sprintf("0.5.%d", i))
		}
		vers = append(vers, "1.0.0")
		if !quick {
			for i := 0; i < 400; i++ {
				vers = append(vers, randVersion(r))
			}
		} else {
			for i := 0; i < 30; i++ {
				vers = append(vers, randVersion(r))
			}
		}
		for _, ver := range vers {
			p := pool[1+r.Intn(4)]
			// a listed version of the OTHER layout class is not a valid stream: skip
			if otherLayoutVersion(ver, p.Layout) {
				continue
			}
			h.attempt(pool[r.Intn(5)], p, -1, ver, true)
			m.class("version")
		}
	}
}

// otherLayoutVersion: ver (possibly with build metadata) is a LISTED version that
// belongs to another layout than the stream's; such a stream is not a valid one.
func otherLayoutVersion(ver, layout string) bool {
	core := ver
	if i := strings.IndexByte(core, '+'); i >= 0 {
		core = core[:i]
	}
	class := map[string]string{libVer(): "cur", "0.5.12": "cur", "0.5.10": "v0510", "0.5.11": "v0510", "1.0.0": "v3", "0.5.8": "v3", "0.5.9": "v3"}[core]
	if class == "" {
		return false
	}
	return !strings.HasPrefix(layout, class)
}

func randVersion(r *rand.Rand) string {
	num := func() string {
		switch r.Intn(6) {
		case 0:
			return "0"
		case 1:
			return "5"
		case 2:
			return fmt.Sprint(8 + r.Intn(8))
		case 3:
			return fmt.Sprint(r.Intn(100))
		case 4:
			return "0" + fmt.Sprint(r.Intn(10))
		}
		return fmt.Sprint(r.Intn(3))
	}
	s := num() + "." + num() + "." + num()
	switch r.Intn(8) {
	case 0:
		s += "-" + []string{"rc", "1", "0", "a.b", "01", ""}[r.Intn(6)]
	case 1:
		s += "+" + []string{"m", "1.2", "", "x-y"}[r.Intn(4)]
	case 2:
		s = s[:r.Intn(len(s)+1)]
	case 3:
		b := []byte(s)
		b[r.Intn(len(b))] = byte(r.Intn(256))
		s = string(b)
	}
	if len(s) > 16 {
		s = s[:16]
	}
	return s
}

// newMemEv: NewSlimTrie must not modify the caller's key slice, value slice or option
// struct (including the booleans its pointers point to).
func newMemEv(c *TrieCase) Ev {
	keys := append([]string{}, c.Keys...)
	vals := c.typedVals()
	valsCopy := fmt.Sprintf("%#v", vals)
	// caller-owned booleans, shared the way a caller may share them
	bools := make([]bool, 4)
	ptrs := make([]*bool, 4)
	for i := 0; i < 4; i++ {
		if c.Opt4[i] != 2 {
			bools[i] = c.Opt4[i] == 1
			ptrs[i] = &bools[i]
		}
	}
	// the options travel in a caller-owned slice spread into the variadic parameter: the
	// callee then sees the caller's own Opt struct, not a temporary copy
	opts := []trie.Opt{{DedupValue: ptrs[0], InnerPrefix: ptrs[1], LeafPrefix: ptrs[2], Complete: ptrs[3]}}
	before := append([]bool{}, bools...)
	pan := ""
	func() {
		defer func() {
			if r := recover(); r != nil {
				pan = fmt.Sprint(r)
			}
		}()
		trie.NewSlimTrie(c.encoder(), keys, vals, opts...)
	}()
	opt := opts[0]
	keysSame := len(keys) == len(c.Keys)
	for i := range keys {
		if i < len(c.Keys) && keys[i] != c.Keys[i] {
			keysSame = false
		}
	}
	ptrSame := len(opts) == 1 && opt.DedupValue == ptrs[0] && opt.InnerPrefix == ptrs[1] && opt.LeafPrefix == ptrs[2] && opt.Complete == ptrs[3]
	valSame := true
	for i := range bools {
		if bools[i] != before[i] {
			valSame = false
		}
	}
	return Ev{"ev": "newmem", "opt": c.Opt4[:], "nkeys": len(keys), "enc": c.Enc, "pan": pan,
		"keys": b2i(keysSame), "vals": b2i(fmt.Sprintf("%#v", vals) == valsCopy), "optptrs": b2i(ptrSame), "optvals": b2i(valSame)}
}

// newMemCarvedEv: []byte values handed to encode.Bytes{Size: 4}, all carved out of ONE
// caller-owned buffer, each with spare capacity reaching into its neighbour's bytes.  With
// short = true some values are shorter than the declared size (a misuse the library may answer
// with garbage or an error - but it must not write into the caller's buffer either way).
// The whole backing buffer is compared before and after the build.
func newMemCarvedEv(o4 [4]int, n int, short bool) Ev {
	keys := []string{}
	for i := 0; i < n; i++ {
		keys = append(keys, fmt.Sprintf("k%03d", i))
	}
	backing := make([]byte, 4*n+16)
	for i := range backing {
		backing[i] = byte(0x41 + i%50)
	}
	vals := make([][]byte, n)
	for i := range vals {
		l := 4
		if short && i%3 == 0 {
			l = 1 + i%3
		}
		vals[i] = backing[4*i : 4*i+l] // len l, capacity to the end of the buffer
	}
	before := append([]byte{}, backing...)
	lens := make([]int, n)
	for i := range vals {
		lens[i] = len(vals[i])
	}
	bools := make([]bool, 4)
	ptrs := make([]*bool, 4)
	for i := 0; i < 4; i++ {
		if o4[i] != 2 {
			bools[i] = o4[i] == 1
			ptrs[i] = &bools[i]
		}
	}
	opts := []trie.Opt{{DedupValue: ptrs[0], InnerPrefix: ptrs[1], LeafPrefix: ptrs[2], Complete: ptrs[3]}}
	bb := append([]bool{}, bools...)
	pan := ""
	func() {
		defer func() {
			if r := recover(); r != nil {
				pan = fmt.Sprint(r)
			}
		}()
		trie.NewSlimTrie(encode.Bytes{Size: 4}, keys, vals, opts...)
	}()
	same := string(before) == string(backing)
	for i := range vals {
		if len(vals[i]) != lens[i] {
			same = false
		}
	}
	valSame := true
	for i := range bools {
		if bools[i] != bb[i] {
			valSame = false
		}
	}
	if short {
		pan = "" // a panic on misused input is not what this event judges
	}
	carved := 1
	if short {
		carved = 2
	}
	return Ev{"ev": "newmem", "opt": o4[:], "nkeys": n, "enc": "b4", "pan": pan, "carved": carved,
		"keys": 1, "vals": b2i(same), "optptrs": 1, "optvals": b2i(valSame)}
}

func genNewMem(t *Tracer, m *Meta, r *rand.Rand) {
	for i, o4 := range [][4]int{{2, 2, 2, 2}, {0, 0, 0, 1}, {1, 0, 1, 0}, {0, 1, 0, 0}, {1, 2, 2, 1}, {0, 0, 0, 0}} {
		for _, short := range []bool{false, true} {
			t.NextCase()
			m.Cases++
			t.Emit(Ev{"ev": "case", "enc": "b4", "hist": []interface{}{}})
			t.Emit(newMemCarvedEv(o4, 3+i*5, short))
			m.Calls++
		}
	}
	m.class("build-arguments:values-carved-from-one-buffer")
	combos := [][4]int{}
	for a := 0; a < 3; a++ {
		for b := 0; b < 3; b++ {
			for c := 0; c < 3; c++ {
				for d := 0; d < 3; d++ {
					combos = append(combos, [4]int{a, b, c, d})
				}
			}
		}
	}
	for _, o4 := range combos {
		for _, keys := range [][]string{{}, {"a"}, genKeys(r, "ascii", 12, 4), genKeys(r, "twosym", 30, 5)} {
			enc := []string{"i32", "s16", "none", "b4"}[r.Intn(4)]
			c := &TrieCase{Keys: keys, Enc: enc, Vals: mkVals(r, "C20", enc, len(keys)), Opt4: o4}
			t.NextCase()
			m.Cases++
			t.Emit(Ev{"ev": "case", "enc": enc, "hist": []interface{}{}})
			t.Emit(newMemEv(c))
			m.Calls++
		}
	}
	m.class("build-arguments:81-option-pointer-combinations")
}

func readHistories(path string) [][][]interface{} {
	f, err := os.Open(path)
	if err != nil {
		panic(err)
	}
	defer f.Close()
	out := [][][]interface{}{}
	sc := bufio.NewScanner(f)
	sc.Buffer(make([]byte, 1<<20), 1<<26)
	for sc.Scan() {
		ln := strings.TrimSpace(sc.Text())
		if ln == "" {
			continue
		}
		var h [][]interface{}
		if err := json.Unmarshal([]byte(ln), &h); err != nil {
			panic(fmt.Sprintf("bad history line %q: %v", ln, err))
		}
		out = append(out, h)
	}
	return out
}

// genHist replays TLC's histories.  prop selects the emphasis.
func genHist(t *Tracer, m *Meta, prop, tier string, seed int64, histFile string) {
	r := rand.New(rand.NewSource(seed*86028121 + int64(prop[2])))
	hists := readHistories(histFile)
	if len(hists) == 0 {
		panic("no histories from the specification")
	}
	budget := 1000
	if tier != "quick" {
		budget = 30000 // all 29 791 histories of depth 3
	}
	m.Extra["histories_from_spec"] = len(hists)
	if len(hists) > budget {
		r.Shuffle(len(hists), func(i, j int) { hists[i], hists[j] = hists[j], hists[i] })
		hists = hists[:budget]
	} else {
		m.Exhaustive = true
	}
	nVar := 6
	pools := make([][]*poolStream, nVar)
	qss := make([][]string, nVar)
	for v := 0; v < nVar; v++ {
		pools[v] = mkPool(r, v)
		qss[v] = poolQueries(r, pools[v], 90)
	}
	if prop == "C07" {
		genCuts(t, m, tier, seed, r, pools)
	}
	if prop == "C20" {
		genNewMem(t, m, r)
	}
	for i, hs := range hists {
		v := i % nVar
		h := &histRunner{t: t, m: m, r: r, pool: pools[v], qs: qss[v], enc: pools[v][0].Case, c20: prop == "C20", c07: prop == "C07"}
		h.run(hs)
		key := fmt.Sprint(hs)
		if !m.seen[key] && len(hs) > 1 {
			m.seen[key] = true
			m.Distinct++
		}
		if len(m.Samples) < 4 {
			m.Samples = append(m.Samples, Ev{"history": hs, "pool_encoder": pools[v][0].Case.Enc})
		}
	}
}

// ---- replay of history events -------------------------------------------------

type histReplay struct {
	pool    map[int]*poolStream
	enc     *TrieCase
	st      *trie.SlimTrie
	src     *poolStream
	lastIn  []byte
	lastOut []byte
	r       *rand.Rand
}

func (hr *histReplay) handle(t *Tracer, name string, e map[string]interface{}) bool {
	gi := func(k string) int { return int(e[k].(float64)) }
	switch name {
	case "case":
		t.Emit(Ev{"ev": "case", "enc": e["enc"], "hist": e["hist"]})
		hr.st, hr.src, hr.lastIn, hr.lastOut = nil, nil, nil, nil
		return true
	case "pool":
		c := caseFromNew(e)
		st, _, _ := c.Build()
		if st == nil {
			panic("replay: pool trie does not build")
		}
		b, err := st.Marshal()
		if err != nil {
			panic(err)
		}
		p := &poolStream{SID: gi("sid"), Case: c, Layout: e["layout"].(string), Ver: headerVersion(b), Bytes: b, Secs: sectionLens(b)}
		if p.Layout != "cur" {
			p = legacyPoolStream(p.SID, c, p.Layout)
		}
		hr.pool[p.SID] = p
		hr.enc = c
		t.Emit(p.Ev())
		return true
	case "inst":
		st, err := trie.NewSlimTrie(hr.enc.encoder(), nil, nil)
		if err != nil {
			panic(err)
		}
		hr.st = st
		t.Emit(Ev{"ev": "inst"})
		return true
	case "unm":
		p := hr.pool[gi("sid")]
		buf := append([]byte{}, p.Bytes...)
		ver := fromInts(toIntSlice(e["ver"]))
		cut := gi("cut")
		if ver != p.Ver && (cut < 0 || cut >= 16) {
			buf = withVersion(buf, ver)
		}
		if cut >= 0 {
			buf = buf[:cut:cut]
		}
		sent := append([]byte{}, buf...)
		ec, pan := "", ""
		viaProto := false
		if vp, ok := e["viaproto"].(float64); ok && vp == 1 {
			viaProto = true
		}
		stages := recordStages(func() {
			defer func() {
				if r := recover(); r != nil {
					pan = fmt.Sprint(r)
				}
			}()
			if viaProto {
				watched(func() { ec = errClass(proto.Unmarshal(buf, hr.st)) })
			} else {
				watched(func() { ec = errClass(hr.st.Unmarshal(buf)) })
			}
		})
		effVer := p.Ver
		if len(buf) >= 16 {
			effVer = headerVersion(buf)
		}
		t.Emit(Ev{"ev": "unm", "cur": ints(libVer()), "sid": p.SID, "cut": cut, "ver": ints(effVer), "total": len(p.Bytes), "err": ec, "pan": pan,
			"bufmodified": b2i(string(sent) != string(buf)), "kind": e["kind"], "stages": stages, "viaproto": b2i(viaProto)})
		hr.src = nil
		if ec == "" && pan == "" && cut < 0 {
			hr.src = p
		}
		hr.lastIn = buf
		return true
	case "reset":
		pan := ""
		func() {
			defer func() {
				if r := recover(); r != nil {
					pan = fmt.Sprint(r)
				}
			}()
			hr.st.Reset()
		}()
		hr.src = nil
		t.Emit(Ev{"ev": "reset", "pan": pan})
		return true
	case "marshal":
		var out []byte
		pan, psize, pmh := "", -1, ""
		func() {
			defer func() {
				if r := recover(); r != nil {
					pan = fmt.Sprint(r)
				}
			}()
			var err error
			out, err = hr.st.Marshal()
			if err != nil {
				pan = "error: " + err.Error()
				return
			}
			psize = proto.Size(hr.st)
			if b2, err := proto.Marshal(hr.st); err == nil {
				pmh = hashHex(b2)
			}
		}()
		ev := Ev{"ev": "marshal", "pan": pan, "mhash": hashHex(out), "mlen": len(out), "psize": psize, "pmhash": pmh, "srclen": -1, "srchash": ""}
		if hr.src != nil {
			ev["srclen"], ev["srchash"] = len(hr.src.Bytes), hashHex(hr.src.Bytes)
		}
		hr.lastOut = out
		t.Emit(ev)
		return true
	case "scribble":
		pat := gi("pattern")
		if e["target"].(string) == "out" {
			scribble(hr.r, hr.lastOut, pat)
		} else {
			scribble(hr.r, hr.lastIn, pat)
		}
		t.Emit(Ev{"ev": "scribble", "target": e["target"], "pattern": pat})
		return true
	case "newmem":
		if cv, ok := e["carved"]; ok && int(cv.(float64)) != 0 {
			var o4 [4]int
			copy(o4[:], toIntSlice(e["opt"]))
			t.Emit(newMemCarvedEv(o4, gi("nkeys"), int(cv.(float64)) == 2))
			return true
		}
		o := toIntSlice(e["opt"])
		rr := rand.New(rand.NewSource(3))
		n := gi("nkeys")
		keys := []string{}
		if n > 0 {
			keys = genKeys(rr, "ascii", n+4, 4)
			if len(keys) > n {
				keys = keys[:n]
			}
		}
		enc := e["enc"].(string)
		c := &TrieCase{Keys: keys, Enc: enc, Vals: mkVals(rr, "C20", enc, len(keys))}
		copy(c.Opt4[:], o)
		t.Emit(newMemEv(c))
		return true
	case "bat":
		qs := toStrings(e["qs"])
		h := &histRunner{t: t, m: newMeta(""), qs: qs, enc: hr.enc}
		h.bat(hr.st, hr.src)
		return true
	}
	return false
}
