package main

import (
	"math/rand"
	"sort"
	"strings"
)

// C08: construction is all-or-nothing.

func firstDisorder(keys []string) int {
	for i := 0; i+1 < len(keys); i++ {
		if keys[i] >= keys[i+1] {
			return i + 1
		}
	}
	return 0
}

// runBuildCase: a construction attempt; if a trie comes back for a strictly
// ascending list, its own keys are looked up (and a few other queries).
func runBuildCase(t *Tracer, m *Meta, r *rand.Rand, c *TrieCase, class string) {
	t.NextCase()
	m.countCase(c)
	st, ec, pan := c.Build()
	ev := c.NewEv(ec, pan)
	ev["dis"] = firstDisorder(c.Keys)
	t.Emit(ev)
	m.Calls++
	m.class(class + ":" + map[bool]string{true: "accepted", false: "rejected"}[st != nil])
	if st == nil || firstDisorder(c.Keys) != 0 {
		return // nothing (or nothing meaningful) to observe
	}
	t.Emit(StatEv(st))
	t.Emit(ObsEv(c, st, "k", c.Keys, nil))
	m.Calls += 4 * len(c.Keys)
	if len(m.Samples) < 4 && len(c.Keys) <= 4 && maxLen(c.Keys) < 10 {
		m.Samples = append(m.Samples, Ev{"keys": intsList(c.Keys), "enc": c.Enc, "opt": c.Opt4, "class": class})
	}
}

func maxLen(ks []string) int {
	m := 0
	for _, k := range ks {
		if len(k) > m {
			m = len(k)
		}
	}
	return m
}

// plant an order violation of the given kind at index i (0 <= i < len-1)
func plant(r *rand.Rand, keys []string, kind string, i int) []string {
	ks := append([]string{}, keys...)
	switch kind {
	case "dup":
		ks[i+1] = ks[i]
	case "swap":
		ks[i], ks[i+1] = ks[i+1], ks[i]
	case "prefix-after":
		// a key followed by its own proper prefix
		if len(ks[i]) == 0 {
			ks[i] = "x"
		}
		ks[i+1] = ks[i][:len(ks[i])-1]
	case "signed":
		// 0x80.. before 0x7f..: ascending for signed bytes, descending for unsigned
		ks[i] = ks[i] + "\x80" + randBytes(r, r.Intn(3), nil)
		ks[i+1] = strings.TrimSuffix(ks[i], ks[i][strings.LastIndex(ks[i], "\x80"):]) + "\x7f" + randBytes(r, r.Intn(3), nil)
	case "far":
		// key i+1 smaller than key i but still greater than some earlier key
		j := r.Intn(i + 1)
		ks[i+1] = keys[j] + "\x00"
		if ks[i+1] >= ks[i] {
			ks[i+1] = keys[j]
		}
	}
	return ks
}

var plantKinds = []string{"dup", "swap", "prefix-after", "signed", "far"}

func genBuild(t *Tracer, m *Meta, tier string, seed int64) {
	r := rand.New(rand.NewSource(seed*49979687 + 8))
	quick := tier == "quick"
	nOpt := 4
	if !quick {
		nOpt = 16
	}
	// (a) every SEQUENCE (ordered or not) of <= 3 strings of the small universes
	for ui, u := range []*Universe{universes[0], universes[3]} {
		strs := u.Strings()
		n := len(strs)
		seqs := [][]int{{}}
		for a := 0; a < n; a++ {
			seqs = append(seqs, []int{a})
			for b := 0; b < n; b++ {
				seqs = append(seqs, []int{a, b})
			}
		}
		stride3 := 1
		if quick {
			stride3 = 23
		}
		cnt := int(seed) + ui
		for a := 0; a < n; a++ {
			for b := 0; b < n; b++ {
				for c := 0; c < n; c++ {
					cnt++
					if cnt%stride3 == 0 {
						seqs = append(seqs, []int{a, b, c})
					}
				}
			}
		}
		for _, sq := range seqs {
			keys := make([]string, len(sq))
			for i, x := range sq {
				keys[i] = strs[x]
			}
			for _, oi := range r.Perm(16)[:1+r.Intn(2)] {
				o4 := all16[oi]
				enc := []string{"i32", "i32", "none", "s16"}[r.Intn(4)]
				var vals [][]byte
				if enc != "none" {
					pat := uint64(0)
					if len(keys) > 1 {
						pat = uint64(r.Intn(1 << uint(len(keys)-1)))
					}
					vals = valsFromPattern(enc, len(keys), pat, 0)
				}
				runBuildCase(t, m, r, &TrieCase{Keys: keys, Enc: enc, Vals: vals, Opt4: o4}, "universe-sequence")
			}
		}
		m.class("universe:" + u.Name)
	}
	_ = nOpt
	// (b) long lists with one or several planted violations at any index
	nLong := 60
	if !quick {
		nLong = 1000
	}
	for i := 0; i < nLong; i++ {
		fam := familyNames[i%len(familyNames)]
		keys := genKeys(r, fam, 3+r.Intn(200), 1+r.Intn(12))
		if len(keys) < 3 {
			continue
		}
		nviol := 1
		if r.Intn(4) == 0 {
			nviol = 2 + r.Intn(3)
		}
		kinds := []string{}
		for v := 0; v < nviol; v++ {
			kind := plantKinds[r.Intn(len(plantKinds))]
			pos := r.Intn(len(keys) - 1)
			switch r.Intn(4) {
			case 0:
				pos = 0
			case 1:
				pos = len(keys) - 2
			}
			keys = plant(r, keys, kind, pos)
			kinds = append(kinds, kind)
		}
		sort.Strings(kinds)
		enc := []string{"i32", "i64", "none", "s16", "i8"}[r.Intn(5)]
		var vals [][]byte
		if enc != "none" {
			// long runs of equal values: the de-duplication path sees most keys
			vals = valsRuns(r, enc, len(keys), 1+r.Intn(12), 0)
		}
		c := &TrieCase{Keys: keys, Enc: enc, Vals: vals, Opt4: all16[r.Intn(16)]}
		if r.Intn(8) == 0 {
			c.NoOpt, c.Opt4 = true, [4]int{2, 2, 2, 2}
		}
		runBuildCase(t, m, r, c, "planted:"+strings.Join(kinds, "+"))
		// and the valid list it was derived from must be accepted
		if i%3 == 0 {
			valid := uniq(append([]string{}, keys...))
			c2 := &TrieCase{Keys: valid, Enc: enc, Opt4: c.Opt4}
			if enc != "none" {
				c2.Vals = valsRuns(r, enc, len(valid), 1+r.Intn(12), 0)
			}
			runBuildCase(t, m, r, c2, "valid")
		}
	}
	// (b2) the violation LATE in long keys: neighbours equal in their first L bytes and
	// inverted (or equal, or a key followed by its own prefix) only behind them
	for _, L := range []int{31, 32, 63, 64, 65, 127, 128, 255, 256, 257, 1000, 5000, 16383} {
		common := randBytes(r, L, nil)
		good := []string{"\x00", common + "\x10", common + "\x10\x00", common + "\x80", common + "\x80\xff", common + "\xff"}
		sort.Strings(good)
		good = uniq(good)
		for k := 0; k < 3; k++ {
			keys := append([]string{}, good...)
			p := 1 + r.Intn(len(keys)-2)
			kind := []string{"swap", "equal", "own-prefix-after"}[k]
			switch k {
			case 0:
				keys[p], keys[p+1] = keys[p+1], keys[p]
			case 1:
				keys[p+1] = keys[p]
			case 2:
				keys[p+1] = keys[p][:len(keys[p])-1]
			}
			enc := []string{"i32", "none"}[r.Intn(2)]
			c := &TrieCase{Keys: keys, Enc: enc, Opt4: all16[r.Intn(16)]}
			if enc != "none" {
				c.Vals = valsRuns(r, enc, len(keys), 1+r.Intn(3), 0)
			}
			runBuildCase(t, m, r, c, "late:"+kind)
		}
		c := &TrieCase{Keys: good, Enc: "i32", Vals: valsFromPattern("i32", len(good), 0, 1), Opt4: all16[r.Intn(16)]}
		runBuildCase(t, m, r, c, "valid")
	}
	// (c) two or three keys sharing a single-branch run of L half-bytes, every
	// length class up to beyond the 16-bit step counter, in every option combination
	runs := []int{0, 1, 2, 3, 255, 256, 257, 510, 511, 512, 513, 4095, 4096, 32766, 32767, 32768, 65534, 65535, 65536, 65537, 70000, 131072}
	if quick {
		runs = []int{0, 1, 255, 256, 511, 512, 32767, 32768, 65534, 65535, 65536, 65537, 70001}
	}
	for _, L := range runs {
		opts := all16
		if quick || L > 4096 {
			opts = [][4]int{all16[r.Intn(16)], {1, 0, 0, 0}, {0, 0, 1, 0}, {1, 1, 0, 0}, {0, 0, 0, 1}}
			if !quick {
				opts = append(opts, all16[r.Intn(16)], all16[r.Intn(16)])
			}
		}
		for _, o4 := range opts {
			// L half-bytes in common, then the keys differ; odd L ends in mid-byte
			fill := byte(r.Intn(256))
			common := strings.Repeat(string([]byte{fill}), L/2)
			var keys []string
			if L%2 == 0 {
				keys = []string{common + "\x12", common + "\x87"}
			} else {
				keys = []string{common + "\x51", common + "\x5e"}
			}
			if r.Intn(2) == 0 {
				// a third key branching earlier, so that the run hangs below an inner node
				keys = append([]string{"\x00" + randBytes(r, 1, nil)}, keys...)
				sort.Strings(keys)
				keys = uniq(keys)
			}
			enc := []string{"i32", "none"}[r.Intn(2)]
			c := &TrieCase{Keys: keys, Enc: enc, Opt4: o4}
			if enc != "none" {
				c.Vals = valsFromPattern(enc, len(keys), 0, 7)
			}
			runBuildCase(t, m, r, c, "run:"+runClass(L))
		}
	}
	// (d) the same runs followed by a fan-out of 12 bytes: the node below the run is a
	// 257-bit node (byte-wide label), whose step is counted in the same 4-bit units
	fanRuns := []int{65534, 65536, 70002, 131070, 131072}
	if quick {
		fanRuns = []int{65534, 65536, 98304}
	}
	for _, L := range fanRuns {
		for _, o4 := range [][4]int{{1, 0, 0, 0}, {0, 0, 1, 0}, all16[r.Intn(16)]} {
			common := strings.Repeat(string([]byte{byte(0x40 + r.Intn(64))}), L/2)
			keys := []string{}
			for i := 0; i < 12; i++ {
				keys = append(keys, common+string([]byte{byte(10 + i*20)}))
			}
			enc := []string{"i32", "none"}[r.Intn(2)]
			c := &TrieCase{Keys: keys, Enc: enc, Opt4: o4}
			if enc != "none" {
				c.Vals = valsFromPattern(enc, len(keys), 0, 3)
			}
			runBuildCase(t, m, r, c, "run+fanout12:"+runClass(L))
		}
	}
}

func runClass(L int) string {
	switch {
	case L < 256:
		return "<256"
	case L <= 32768:
		return "<=32768(16KiB)"
	case L < 65536:
		return "<65536"
	case L == 65536:
		return "=65536"
	default:
		return ">65536"
	}
}
