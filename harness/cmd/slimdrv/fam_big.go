package main

import (
	"fmt"
	"math/rand"
	"sort"
	"strings"

	"github.com/openacid/slim/trie"
	"github.com/openacid/testkeys"
)

// Large tries (10^4 .. 10^5 keys, > 65535 nodes, keys up to 16 KiB): TLC cannot
// rebuild the Model for them, so these are judged by Layer P only, with the
// neighbours of every query among the retained keys SUPPLIED by the harness
// (sort.Search on the retained key list).  The spec verifies lo <= q < hi for the
// supplied neighbours; that they are adjacent retained keys is trusted.

func bigItem(c *TrieCase, st *trie.SlimTrie, ret []int, idx map[string]int, q string) Ev {
	o := observe(c, st, q)
	f := sort.Search(len(ret), func(j int) bool { return c.Keys[ret[j]] > q }) // #retained <= q
	val := func(p int) []int {
		if p < 0 || p >= len(ret) || !c.HasVals() {
			return nilV
		}
		return bints(c.Vals[ret[p]])
	}
	it := Ev{"q": ints(q), "id": o.ID, "get": o.Get, "rget": o.RGet, "srch": o.Srch, "geti": o.GetI, "pan": o.Pan,
		"haslo": 0, "lo": []int{}, "lov": nilV, "hashi": 0, "hi": []int{}, "hiv": nilV, "predv": nilV,
		"indexed": 0, "kv": nilV}
	if f > 0 {
		it["haslo"], it["lo"], it["lov"] = 1, ints(c.Keys[ret[f-1]]), val(f-1)
		if c.Keys[ret[f-1]] == q {
			it["predv"] = val(f - 2)
		} else {
			it["predv"] = val(f - 1)
		}
	}
	if f < len(ret) {
		it["hashi"], it["hi"], it["hiv"] = 1, ints(c.Keys[ret[f]]), val(f)
	}
	if i, ok := idx[q]; ok {
		it["indexed"] = 1
		if c.HasVals() {
			it["kv"] = bints(c.Vals[i])
		}
	}
	return it
}

func runBigCase(t *Tracer, m *Meta, r *rand.Rand, c *TrieCase, nq int, class string, params Ev) {
	t.NextCase()
	m.countCase(c)
	st, ec, pan := c.Build()
	if st == nil {
		t.Emit(Ev{"ev": "bigfail", "err": ec, "pan": pan, "n": len(c.Keys)})
		return
	}
	ret := retained(c)
	idx := make(map[string]int, len(c.Keys))
	for i, k := range c.Keys {
		idx[k] = i
	}
	qs := []string{}
	for i := 0; i < nq; i++ {
		k := c.Keys[r.Intn(len(c.Keys))]
		switch r.Intn(6) {
		case 0, 1, 2:
			qs = append(qs, k)
		case 3:
			b := []byte(k)
			if len(b) > 0 {
				b[r.Intn(len(b))] ^= 1 << uint(r.Intn(8))
			}
			qs = append(qs, string(b))
		case 4:
			qs = append(qs, k[:r.Intn(len(k)+1)])
		case 5:
			qs = append(qs, k+string([]byte{byte(r.Intn(256))}))
		}
	}
	qs = append(qs, c.Keys[0], c.Keys[len(c.Keys)-1], "", "\xff\xff\xff\xff\xff")
	o := c.opt()
	_ = o
	phases := []*trie.SlimTrie{st}
	if st2, _, _ := Reload(c, st); st2 != nil {
		phases = append(phases, st2)
	}
	var freshAns []interface{}
	var freshStat []interface{}
	for pi, s := range phases {
		items := []interface{}{}
		for qi, q := range qs {
			it := bigItem(c, s, ret, idx, q)
			// what the FRESH trie answered to the same query (C05: a loaded trie answers
			// identically, false positives included); in the fresh phase its own answers
			own := []interface{}{it["id"], it["get"], it["rget"], it["srch"]}
			if pi == 0 {
				freshAns = append(freshAns, own)
			}
			it["fresh"] = freshAns[qi]
			items = append(items, it)
		}
		stat := StatEv(s)
		if pi == 0 {
			freshStat = []interface{}{stat["keycnt"], stat["nodecnt"], stat["levels"]}
		}
		t.Emit(Ev{"ev": "obsbig", "params": params, "n": len(c.Keys), "nret": len(ret), "opt": c.Opt4[:], "hasvals": c.HasVals(), "enc": c.Enc,
			"loaded": pi, "items": items, "keycnt": stat["keycnt"], "nodecnt": stat["nodecnt"], "statpan": stat["pan"],
			"stat3": []interface{}{stat["keycnt"], stat["nodecnt"], stat["levels"]}, "freshstat": freshStat, "legacy": 0})
		m.Calls += 4 * len(qs)
	}
	if params["prop"] == "C05" {
		// Marshal on a large trie: deterministic, of the advertised size, reproduced by a
		// second build and by re-marshalling the loaded trie
		t.Emit(McheckEv(c, st))
	}
	if b, err := st.Marshal(); err == nil {
		if sl, err := ParseSlim(b); err == nil {
			if d, err := Decode(sl); err == nil {
				m.class(shapeClass(d))
				m.class(fmt.Sprintf("big:nodes=%dk", len(d.Nodes)/1000))
			}
		}
	}
	m.class(class)
}

// runBigLegacyCase: a large key set (> 65535 nodes) written in a historical layout by the
// harness's writers, loaded by the real Unmarshal and observed like the other large tries
// (Layer P; the event is marked legacy, the spec reports under P:C06:*).
func runBigLegacyCase(t *Tracer, m *Meta, kind string, n int, kseed int64, layout string) {
	t.NextCase()
	c, nq := bigCase(kind, n, kseed, "C06")
	c.Enc = "i32"
	rr := rand.New(rand.NewSource(kseed + 7))
	c.Vals = valsRuns(rr, "i32", len(c.Keys), 1+rr.Intn(4), 0)
	if strings.HasPrefix(layout, "v3-") {
		c.Opt4 = [4]int{0, 0, 0, 0} // an old stream holds every key, step lengths only
	} else {
		c.Opt4 = layoutOpt(layout, rr.Intn(2))
	}
	m.countCase(c)
	params := Ev{"kind": kind, "nreq": n, "kseed": fmt.Sprint(kseed), "prop": "C06", "layout": layout}
	b, ok := legacyBytes(c, layout)
	if !ok {
		m.class("biglegacy:unwritable-" + layout)
		return
	}
	st, ec, pan := loadLegacy(c, b, false)
	if st == nil {
		t.Emit(Ev{"ev": "bigfail", "err": ec, "pan": pan, "n": len(c.Keys), "legacy": 1, "params": params})
		return
	}
	ret := retained(c)
	idx := make(map[string]int, len(c.Keys))
	for i, k := range c.Keys {
		idx[k] = i
	}
	qs := []string{c.Keys[0], c.Keys[len(c.Keys)-1], "", "\xff\xff\xff\xff\xff"}
	for i := 0; i < nq; i++ {
		k := c.Keys[rr.Intn(len(c.Keys))]
		if i > nq*2/3 {
			k = c.Keys[len(c.Keys)-1-rr.Intn(400)] // the last keys: the largest node ids
		}
		switch rr.Intn(6) {
		case 3:
			bb := []byte(k)
			if len(bb) > 0 {
				bb[rr.Intn(len(bb))] ^= 1 << uint(rr.Intn(8))
			}
			k = string(bb)
		case 4:
			k = k[:rr.Intn(len(k)+1)]
		}
		qs = append(qs, k)
	}
	items := []interface{}{}
	for _, q := range qs {
		it := bigItem(c, st, ret, idx, q)
		it["fresh"] = []interface{}{it["id"], it["get"], it["rget"], it["srch"]}
		items = append(items, it)
	}
	stat := StatEv(st)
	s3 := []interface{}{stat["keycnt"], stat["nodecnt"], stat["levels"]}
	t.Emit(Ev{"ev": "obsbig", "params": params, "n": len(c.Keys), "nret": len(ret), "opt": c.Opt4[:], "hasvals": true, "enc": c.Enc,
		"loaded": 1, "items": items, "keycnt": stat["keycnt"], "nodecnt": stat["nodecnt"], "statpan": stat["pan"],
		"stat3": s3, "freshstat": s3, "legacy": 1})
	m.Calls += 4 * len(qs)
	m.class("biglegacy:" + layout)
	if nc, ok := stat["nodecnt"].(int); ok {
		m.class(fmt.Sprintf("biglegacy:nodes=%dk", nc/1000))
	}
}

// bigCase regenerates a large case from its parameters (replay needs no key list).
func bigCase(kind string, n int, kseed int64, prop string) (*TrieCase, int) {
	r := rand.New(rand.NewSource(kseed))
	var keys []string
	nq := 300
	switch kind {
	case "random0", "random1", "random2":
		set := map[string]bool{}
		for len(set) < n {
			switch kind {
			case "random0":
				set[randBytes(r, 3+r.Intn(8), nil)] = true
			case "random1":
				set[randBytes(r, 4+r.Intn(12), []byte("abcdefghijklmnopqrstuvwxyz0123456789/"))] = true
			default:
				k := randBytes(r, 2+r.Intn(6), []byte{0x00, 0x01, 0x10, 0x7f, 0x80, 0xfe, 0xff})
				set[k] = true
				if r.Intn(3) == 0 {
					set[k+k] = true
				}
			}
		}
		for k := range set {
			keys = append(keys, k)
		}
		sort.Strings(keys)
	case "deep":
		// key i is a prefix of key i+1 (n levels), every third level also a sibling: the level
		// table, the descent and the neighbour search hundreds of levels down
		nq = 120
		k := []byte{}
		a := []byte{0x00, 0x61, 0x62, 0xff}
		for i := 0; i < n; i++ {
			keys = append(keys, string(k))
			if i%3 == 0 {
				keys = append(keys, string(k)+"\x01z")
			}
			k = append(k, a[r.Intn(len(a))])
			if k[len(k)-1] == 0x00 && i%3 == 0 {
				k[len(k)-1] = 0x61 // keep the sibling "\x01z" on its own branch
			}
		}
		sort.Strings(keys)
		keys = uniq(keys)
	case "testkeys-200kweb2", "testkeys-50kvl10":
		keys = testkeys.Load(kind[len("testkeys-"):])
		if len(keys) > n {
			keys = keys[:n]
		}
	case "16KiB-keys":
		nq = 40
		set := map[string]bool{}
		common := randBytes(r, 9000, []byte{0x61, 0x62})
		for len(set) < n {
			l := 15000 + r.Intn(1385)
			k := common + randBytes(r, l-9000, []byte{0x00, 0xff, 0x41})
			set[k[:l]] = true
			if r.Intn(4) == 0 {
				set[k[:9000+r.Intn(l-9000)]] = true
			}
		}
		for k := range set {
			keys = append(keys, k)
		}
		sort.Strings(keys)
	}
	enc := []string{"i32", "i64", "none", "s16"}[r.Intn(4)]
	if kind == "16KiB-keys" {
		enc = "i32"
	}
	o4 := pickOpts(r, prop, 1)[0]
	var vals [][]byte
	if enc != "none" {
		vals = valsRuns(r, enc, len(keys), 1+r.Intn(6), 0)
		if kind == "deep" {
			vals = valsRuns(r, enc, len(keys), 1, 0) // every key retained: the trie keeps its height
		}
	}
	return &TrieCase{Keys: keys, Enc: enc, Vals: vals, Opt4: o4}, nq
}

func genBig(t *Tracer, m *Meta, prop, tier string, seed int64) {
	r := rand.New(rand.NewSource(seed*141650939 + int64(prop[2])))
	quick := tier == "quick"
	if prop == "C06" {
		// layouts that can hold more than 65535 nodes: packed 16-bit bitmaps with a rank index
		// (0.5.4 .. 0.5.9) and the 0.5.10/0.5.11 message
		layouts := []string{"v3-0.5.5", "v3-0.5.9", "v0510-nopref-0.5.10", "v0510-allpref-0.5.11", "v3-0.5.7", "v0510-innpref-0.5.10"}
		nl := 2
		if !quick {
			nl = len(layouts)
		}
		for i := 0; i < nl; i++ {
			layout := layouts[(i+int(seed))%len(layouts)]
			runBigLegacyCase(t, m, fmt.Sprintf("random%d", (i+int(seed))%3), 70000, r.Int63(), layout)
		}
		return
	}
	type spec struct {
		kind string
		n    int
	}
	specs := []spec{{fmt.Sprintf("random%d", int(seed)%3), 20000}, {fmt.Sprintf("random%d", (int(seed)+1)%3), 70000},
		{"testkeys-200kweb2", 120000}, {"testkeys-50kvl10", 50000}, {"16KiB-keys", 300}, {"deep", 300 + int(seed)%50}}
	if !quick {
		specs = append(specs, spec{"random0", 100000}, spec{"random1", 100000}, spec{"random2", 40000}, spec{"testkeys-200kweb2", 250000}, spec{"16KiB-keys", 600}, spec{"deep", 1100})
	}
	for _, sp := range specs {
		ks := r.Int63()
		func() {
			defer func() {
				if rr := recover(); rr != nil {
					m.class("big:unavailable-" + sp.kind)
				}
			}()
			c, nq := bigCase(sp.kind, sp.n, ks, prop)
			runBigCase(t, m, rand.New(rand.NewSource(ks+1)), c, nq, "big:"+sp.kind, Ev{"kind": sp.kind, "nreq": sp.n, "kseed": fmt.Sprint(ks), "prop": prop})
		}()
	}
}
