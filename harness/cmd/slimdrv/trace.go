package main

import (
	"bufio"
	"encoding/json"
	"fmt"
	"os"
	"path/filepath"
)

// Ev is one trace event (one ndjson line).  No value is ever JSON null: TLC's Json
// module rejects it; absent values are sentinels.
type Ev map[string]interface{}

// Tracer writes events round-robin per CASE into several chunk files, so that
// several single-worker TLC processes can validate them in parallel.
type Tracer struct {
	dir    string
	files  []*os.File
	ws     []*bufio.Writer
	cur    int
	Events int
	Cases  int
	// bytes written per chunk, to balance
	size []int64
	once []map[string]bool
}

func NewTracer(dir string, chunks int) *Tracer {
	t := &Tracer{dir: dir}
	for i := 0; i < chunks; i++ {
		f, err := os.Create(filepath.Join(dir, fmt.Sprintf("chunk-%02d.ndjson", i)))
		if err != nil {
			panic(err)
		}
		t.files = append(t.files, f)
		t.ws = append(t.ws, bufio.NewWriterSize(f, 1<<20))
		t.size = append(t.size, 0)
		t.once = append(t.once, map[string]bool{})
	}
	return t
}

// NextCase moves to the smallest chunk; all events of a case go to one chunk.
func (t *Tracer) NextCase() {
	best := 0
	for i := range t.size {
		if t.size[i] < t.size[best] {
			best = i
		}
	}
	t.cur = best
	t.Cases++
}

// Once reports whether key is new for the current chunk (definitions that are
// emitted once per chunk, e.g. a stream pool).
func (t *Tracer) Once(key string) bool {
	if t.once[t.cur][key] {
		return false
	}
	t.once[t.cur][key] = true
	return true
}

func (t *Tracer) Emit(e Ev) {
	// the position of the event in the order the calls were made by this process: chunks
	// interleave cases, so a replay of a whole history needs it (state that outlives a case,
	// e.g. a package-level cache in the library)
	e["seq"] = t.Events
	b, err := json.Marshal(e)
	if err != nil {
		panic(err)
	}
	t.ws[t.cur].Write(b)
	t.ws[t.cur].WriteByte('\n')
	t.size[t.cur] += int64(len(b) + 1)
	t.Events++
}

func (t *Tracer) Close() {
	for i := range t.ws {
		t.ws[i].Flush()
		t.files[i].Close()
	}
}

// ints converts a byte string to the integer array the spec sees.  NEVER range
// over a Go string (that iterates runes).
func ints(s string) []int {
	r := make([]int, len(s))
	for i := 0; i < len(s); i++ {
		r[i] = int(s[i])
	}
	return r
}

func bints(b []byte) []int {
	r := make([]int, len(b))
	for i := range b {
		r[i] = int(b[i])
	}
	return r
}

func intsList(ss []string) [][]int {
	r := make([][]int, len(ss))
	for i, s := range ss {
		r[i] = ints(s)
	}
	return r
}

func fromInts(a []int) string {
	b := make([]byte, len(a))
	for i, x := range a {
		b[i] = byte(x)
	}
	return string(b)
}

var nilV = []int{-1}

func b2i(b bool) int {
	if b {
		return 1
	}
	return 0
}
