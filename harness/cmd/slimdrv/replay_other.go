package main

import "github.com/openacid/slim/trie"

// replayOther handles the events of the families other than lookup; extended as
// families are added.
func replayOther(t *Tracer, rs *replayState, name string, e map[string]interface{}, c **TrieCase, st **trie.SlimTrie) bool {
	return false
}
