package main

import (
	"math/rand"

	"github.com/openacid/slim/trie"
)

// replayOther handles the events of the families other than lookup; extended as
// families are added.
func replayOther(t *Tracer, rs *replayState, name string, e map[string]interface{}, c **TrieCase, st **trie.SlimTrie) bool {
	gi := func(k string) int { return int(e[k].(float64)) }
	if rs.hist == nil {
		rs.hist = &histReplay{pool: map[int]*poolStream{}, r: rand.New(rand.NewSource(7))}
	}
	if rs.hist.handle(t, name, e) {
		return true
	}
	if concReplay(t, name, e, c, *st) {
		return true
	}
	if miscReplay(t, name, e) {
		return true
	}
	switch name {
	case "scan":
		if *st != nil {
			t.Emit(runScan(*st, scanReqFromEv(e)))
		}
		return true
	case "iternew":
		if *st != nil {
			if rs.iters == nil {
				rs.iters = &iterSet{its: map[int]trie.NextRaw{}}
			}
			t.Emit(iterNewEv(*st, rs.iters, gi("id"), fromInts(toIntSlice(e["start"])), gi("incl") == 1, gi("withvalue") == 1))
		}
		return true
	case "iternext":
		if *st != nil && rs.iters != nil {
			t.Emit(iterNextEv(rs.iters, gi("id")))
		}
		return true
	}
	return false
}
