package main

import (
	"crypto/sha1"
	"encoding/hex"
	"fmt"
	"math/rand"
	"strconv"
	"strings"

	"github.com/openacid/slim/trie"
)

// C19: String().  The harness tokenises the rendering with its own parser; the
// spec judges the tokens.

func parseValue(enc, s string) []int {
	switch enc {
	case "none":
		if s == "<nil>" {
			return nilV
		}
		return []int{-3}
	case "i8", "i16", "i32", "i64", "int":
		x, err := strconv.ParseInt(s, 10, 64)
		if err != nil {
			return []int{-3}
		}
		return bints(encodeIntVal(enc, x))
	case "s16":
		return bints(append([]byte{byte(len(s) >> 8), byte(len(s))}, s...))
	}
	return []int{-3}
}

func encodeIntVal(enc string, x int64) []byte {
	w := map[string]int{"i8": 1, "i16": 2, "i32": 4, "i64": 8, "int": 8}[enc]
	return le(uint64(x), w)
}

// tokenise one rendered line: [label code, id, step, fan-out, leaf?, value]
func parseLine(enc, line string) ([]interface{}, bool) {
	s := strings.TrimLeft(line, " ")
	lc := -1
	if strings.HasPrefix(s, "-") {
		i := strings.Index(s, "->")
		if i < 0 {
			return nil, false
		}
		bitsStr := s[1:i]
		s = s[i+2:]
		switch len(bitsStr) {
		case 0:
			lc = 0
		case 4, 8:
			v, err := strconv.ParseUint(bitsStr, 2, 16)
			if err != nil {
				return nil, false
			}
			lc = 1 + int(v)
		default:
			return nil, false
		}
	}
	if !strings.HasPrefix(s, "#") {
		return nil, false
	}
	s = s[1:]
	j := 0
	for j < len(s) && s[j] >= '0' && s[j] <= '9' {
		j++
	}
	id, err := strconv.Atoi(s[:j])
	if err != nil {
		return nil, false
	}
	s = s[j:]
	step, fan, leaf := 0, 0, 0
	val := nilV
	if strings.HasPrefix(s, "+") {
		j = 1
		for j < len(s) && s[j] >= '0' && s[j] <= '9' {
			j++
		}
		step, err = strconv.Atoi(s[1:j])
		if err != nil {
			return nil, false
		}
		s = s[j:]
	}
	if strings.HasPrefix(s, "*") {
		j = 1
		for j < len(s) && s[j] >= '0' && s[j] <= '9' {
			j++
		}
		fan, err = strconv.Atoi(s[1:j])
		if err != nil {
			return nil, false
		}
		s = s[j:]
	}
	if strings.HasPrefix(s, "=") {
		leaf = 1
		val = parseValue(enc, s[1:])
		s = ""
	}
	if s != "" {
		return nil, false
	}
	return []interface{}{lc, id, step, fan, leaf, val}, true
}

func RenderEv(c *TrieCase, st *trie.SlimTrie) Ev {
	pan, text := "", ""
	func() {
		defer func() {
			if r := recover(); r != nil {
				pan = fmt.Sprint(r)
			}
		}()
		text = st.String()
	}()
	lines := []interface{}{}
	bad := 0
	// Layer P reads only what the property talks about, tolerant of the line format:
	// the node id of every line (#<digits>) and the value of every leaf line (=<value>)
	ids := []int{}
	leafvals := [][]int{}
	noid := 0
	if pan == "" && text != "" {
		for _, ln := range strings.Split(text, "\n") {
			if i := strings.Index(ln, "#"); i >= 0 {
				j := i + 1
				for j < len(ln) && ln[j] >= '0' && ln[j] <= '9' {
					j++
				}
				if id, err := strconv.Atoi(ln[i+1 : j]); err == nil {
					ids = append(ids, id)
				} else {
					noid++
				}
				if k := strings.Index(ln[j:], "="); k >= 0 {
					leafvals = append(leafvals, parseValue(c.Enc, ln[j+k+1:]))
				}
			} else {
				noid++
			}
			// Layer M: the full grammar of a line
			tok, ok := parseLine(c.Enc, ln)
			if !ok {
				bad++
				continue
			}
			lines = append(lines, tok)
		}
	}
	dn := -1
	if b, err := st.Marshal(); err == nil {
		if sl, err := ParseSlim(b); err == nil {
			if d, err := Decode(sl); err == nil {
				dn = len(d.Nodes)
			}
		}
	}
	h := sha1.Sum([]byte(text))
	return Ev{"ev": "render", "pan": pan, "lines": lines, "bad": bad, "dn": dn, "text": hex.EncodeToString(h[:8]),
		"ids": ids, "leafvals": leafvals, "noid": noid}
}

func runRenderCase(t *Tracer, m *Meta, c *TrieCase) {
	t.NextCase()
	m.countCase(c)
	st, ec, pan := c.Build()
	t.Emit(c.NewEv(ec, pan))
	if st == nil {
		return
	}
	if b, err := st.Marshal(); err == nil {
		if sl, err := ParseSlim(b); err == nil {
			if d, err := Decode(sl); err == nil {
				m.class(shapeClass(d))
			}
		}
	}
	t.Emit(RenderEv(c, st))
	m.Calls++
	st2, ec, pan := Reload(c, st)
	t.Emit(Ev{"ev": "load", "err": ec, "pan": pan})
	if st2 != nil {
		t.Emit(RenderEv(c, st2))
		m.Calls++
	}
	if len(m.Samples) < 3 && len(c.Keys) >= 2 && len(c.Keys) <= 6 {
		m.Samples = append(m.Samples, Ev{"keys": intsList(c.Keys), "enc": c.Enc, "opt": c.Opt4, "rendering": st.String()})
	}
}

var renderEncs = []string{"i32", "i32", "none", "i64", "i16", "s16", "i8"}

func genRender(t *Tracer, m *Meta, tier string, seed int64) {
	r := rand.New(rand.NewSource(seed*32452843 + 19))
	quick := tier == "quick"
	budgetU := 1200
	if !quick {
		budgetU = 16000
	}
	for ui, u := range universes {
		total := u.EachKeyList(1<<30, 1, func([]string) {})
		stride := total/(budgetU/len(universes)) + 1
		off := int(seed+int64(ui)*7) % stride
		u.EachKeyList(stride, off, func(keys []string) {
			n := len(keys)
			enc := renderEncs[r.Intn(len(renderEncs))]
			o4 := all16[r.Intn(16)]
			var vals [][]byte
			if enc != "none" {
				pat := uint64(0)
				if o4[0] != 0 && n > 1 {
					pat = uint64(r.Intn(1 << uint(n-1)))
				}
				vals = valsFromPattern(enc, n, pat, int64(r.Intn(100))-50)
				if n > 2 && r.Intn(3) == 0 {
					vals = valsRecurring(r, enc, n, 2+r.Intn(2), 0)
				}
			}
			runRenderCase(t, m, &TrieCase{Keys: keys, Enc: enc, Vals: vals, Opt4: o4})
		})
		m.class("universe:" + u.Name)
	}
	nMed, maxN := 40, 500
	if !quick {
		nMed, maxN = 120, 2000
	}
	fams := []string{"palette", "twosym", "paletteDeep", "wide", "samehigh", "uniform", "prefixes", "palette", "twosym", "caterpillar", "ascii", "nibdiv", "mixed"}
	for i := 0; i < nMed; i++ {
		fam := fams[i%len(fams)]
		n := 20 + r.Intn(maxN)
		keys := genKeys(r, fam, n, 1+r.Intn(10))
		if len(keys) > maxN {
			keys = keys[:maxN]
		}
		enc := renderEncs[r.Intn(len(renderEncs))]
		o4 := all16[r.Intn(16)]
		runRenderCase(t, m, &TrieCase{Keys: keys, Enc: enc, Vals: mkVals(r, "C19", enc, len(keys)), Opt4: o4})
		m.class("family:" + fam)
	}
	for i := 0; i < 6; i++ {
		c := bigMimicCase(r, "i32")
		if i%2 == 1 {
			c = dedupBigCase(r, "i32")
		}
		c.Opt4 = all16[r.Intn(16)]
		if i%2 == 1 {
			c.Opt4[0] = 1
		}
		runRenderCase(t, m, c)
		m.class([]string{"special:bigmimic", "special:dedupbig"}[i%2])
	}
	for _, keys := range [][]string{{}, {""}, {"a"}, {"", "a"}} {
		for _, enc := range []string{"i32", "none"} {
			runRenderCase(t, m, &TrieCase{Keys: keys, Enc: enc, Vals: mkVals(r, "C19", enc, len(keys)), Opt4: all16[r.Intn(16)]})
		}
	}
}
