package main

import (
	"crypto/sha1"
	"encoding/binary"
	"encoding/hex"
	"fmt"
	"math/rand"
	"sort"
	"strconv"
	"strings"

	"github.com/openacid/slim/trie"
)

// C19: String().  The harness tokenises the rendering with its own parser; the
// spec judges the tokens.

func parseValue(enc, s string) []int {
	switch enc {
	case "none":
		if s == "<nil>" {
			return nilV
		}
		return []int{-3}
	case "i8", "i16", "i32", "i64", "int":
		x, err := strconv.ParseInt(s, 10, 64)
		if err != nil {
			return []int{-3}
		}
		return bints(encodeIntVal(enc, x))
	case "s16":
		return bints(append([]byte{byte(len(s) >> 8), byte(len(s))}, s...))
	}
	return []int{-3}
}

func encodeIntVal(enc string, x int64) []byte {
	w := map[string]int{"i8": 1, "i16": 2, "i32": 4, "i64": 8, "int": 8}[enc]
	return le(uint64(x), w)
}

// tokenise one rendered line: [label code, id, step, fan-out, leaf?, value]
func parseLine(enc, line string) ([]interface{}, bool) {
	s := strings.TrimLeft(line, " ")
	lc := -1
	if strings.HasPrefix(s, "-") {
		i := strings.Index(s, "->")
		if i < 0 {
			return nil, false
		}
		bitsStr := s[1:i]
		s = s[i+2:]
		switch len(bitsStr) {
		case 0:
			lc = 0
		case 4, 8:
			v, err := strconv.ParseUint(bitsStr, 2, 16)
			if err != nil {
				return nil, false
			}
			lc = 1 + int(v)
		default:
			return nil, false
		}
	}
	if !strings.HasPrefix(s, "#") {
		return nil, false
	}
	s = s[1:]
	j := 0
	for j < len(s) && s[j] >= '0' && s[j] <= '9' {
		j++
	}
	id, err := strconv.Atoi(s[:j])
	if err != nil {
		return nil, false
	}
	s = s[j:]
	step, fan, leaf := 0, 0, 0
	val := nilV
	if strings.HasPrefix(s, "+") {
		j = 1
		for j < len(s) && s[j] >= '0' && s[j] <= '9' {
			j++
		}
		step, err = strconv.Atoi(s[1:j])
		if err != nil {
			return nil, false
		}
		s = s[j:]
	}
	if strings.HasPrefix(s, "*") {
		j = 1
		for j < len(s) && s[j] >= '0' && s[j] <= '9' {
			j++
		}
		fan, err = strconv.Atoi(s[1:j])
		if err != nil {
			return nil, false
		}
		s = s[j:]
	}
	if strings.HasPrefix(s, "=") {
		leaf = 1
		val = parseValue(enc, s[1:])
		s = ""
	}
	if s != "" {
		return nil, false
	}
	return []interface{}{lc, id, step, fan, leaf, val}, true
}

func RenderEv(c *TrieCase, st *trie.SlimTrie) Ev {
	pan, text := "", ""
	func() {
		defer func() {
			if r := recover(); r != nil {
				pan = fmt.Sprint(r)
			}
		}()
		watched(func() { text = st.String() })
	}()
	lines := []interface{}{}
	bad := 0
	// Layer P reads only what the property talks about, tolerant of the line format:
	// the node id of every line (#<digits>) and the value of every leaf line (=<value>)
	ids := []int{}
	leafvals := [][]int{}
	noid := 0
	if pan == "" && text != "" {
		for _, ln := range strings.Split(text, "\n") {
			if i := strings.Index(ln, "#"); i >= 0 {
				j := i + 1
				for j < len(ln) && ln[j] >= '0' && ln[j] <= '9' {
					j++
				}
				if id, err := strconv.Atoi(ln[i+1 : j]); err == nil {
					ids = append(ids, id)
				} else {
					noid++
				}
				if k := strings.Index(ln[j:], "="); k >= 0 {
					leafvals = append(leafvals, parseValue(c.Enc, ln[j+k+1:]))
				}
			} else {
				noid++
			}
			// Layer M: the full grammar of a line
			tok, ok := parseLine(c.Enc, ln)
			if !ok {
				bad++
				continue
			}
			lines = append(lines, tok)
		}
	}
	dn := -1
	if b, err := st.Marshal(); err == nil {
		if sl, err := ParseSlim(b); err == nil {
			if d, err := Decode(sl); err == nil {
				dn = len(d.Nodes)
			}
		}
	}
	h := sha1.Sum([]byte(text))
	return Ev{"ev": "render", "pan": pan, "lines": lines, "bad": bad, "dn": dn, "text": hex.EncodeToString(h[:8]),
		"ids": ids, "leafvals": leafvals, "noid": noid}
}

func runRenderCase(t *Tracer, m *Meta, c *TrieCase) {
	t.NextCase()
	m.countCase(c)
	st, ec, pan := c.Build()
	t.Emit(c.NewEv(ec, pan))
	if st == nil {
		return
	}
	if b, err := st.Marshal(); err == nil {
		if sl, err := ParseSlim(b); err == nil {
			if d, err := Decode(sl); err == nil {
				m.class(shapeClass(d))
			}
		}
	}
	t.Emit(RenderEv(c, st))
	m.Calls++
	st2, ec, pan := Reload(c, st)
	t.Emit(Ev{"ev": "load", "err": ec, "pan": pan})
	if st2 != nil {
		t.Emit(RenderEv(c, st2))
		m.Calls++
	}
	if len(m.Samples) < 3 && len(c.Keys) >= 2 && len(c.Keys) <= 6 {
		m.Samples = append(m.Samples, Ev{"keys": intsList(c.Keys), "enc": c.Enc, "opt": c.Opt4, "rendering": st.String()})
	}
}

var renderEncs = []string{"i32", "i32", "none", "i64", "i16", "s16", "i8"}

func genRender(t *Tracer, m *Meta, tier string, seed int64) {
	r := rand.New(rand.NewSource(seed*32452843 + 19))
	quick := tier == "quick"
	budgetU := 1200
	if !quick {
		budgetU = 16000
	}
	for ui, u := range universes {
		total := u.EachKeyList(1<<30, 1, func([]string) {})
		stride := total/(budgetU/len(universes)) + 1
		off := int(seed+int64(ui)*7) % stride
		u.EachKeyList(stride, off, func(keys []string) {
			n := len(keys)
			enc := renderEncs[r.Intn(len(renderEncs))]
			o4 := all16[r.Intn(16)]
			var vals [][]byte
			if enc != "none" {
				pat := uint64(0)
				if o4[0] != 0 && n > 1 {
					pat = uint64(r.Intn(1 << uint(n-1)))
				}
				vals = valsFromPattern(enc, n, pat, int64(r.Intn(100))-50)
				if n > 2 && r.Intn(3) == 0 {
					vals = valsRecurring(r, enc, n, 2+r.Intn(2), 0)
				}
			}
			runRenderCase(t, m, &TrieCase{Keys: keys, Enc: enc, Vals: vals, Opt4: o4})
		})
		m.class("universe:" + u.Name)
	}
	nMed, maxN := 40, 500
	if !quick {
		nMed, maxN = 120, 2000
	}
	fams := []string{"palette", "twosym", "paletteDeep", "wide", "samehigh", "uniform", "prefixes", "palette", "twosym", "caterpillar", "ascii", "nibdiv", "mixed"}
	for i := 0; i < nMed; i++ {
		fam := fams[i%len(fams)]
		n := 20 + r.Intn(maxN)
		keys := genKeys(r, fam, n, 1+r.Intn(10))
		if len(keys) > maxN {
			keys = keys[:maxN]
		}
		enc := renderEncs[r.Intn(len(renderEncs))]
		o4 := pickOpts(r, "C19", 1)[0] // explicit values and nil pointers
		runRenderCase(t, m, &TrieCase{Keys: keys, Enc: enc, Vals: mkVals(r, "C19", enc, len(keys)), Opt4: o4})
		m.class("family:" + fam)
	}
	for rep := 0; rep < 2; rep++ {
		o4 := all16[r.Intn(16)]
		for _, nc := range specialShapes(r, "i32", o4, 3, seed+int64(rep)) {
			c := nc.C
			c.Opt4 = o4
			if nc.Name == "special:dedupbig" {
				c.Opt4[0] = 1
			}
			runRenderCase(t, m, c)
			m.class(nc.Name)
		}
	}
	for _, keys := range [][]string{{}, {""}, {"a"}, {"", "a"}} {
		for _, enc := range []string{"i32", "none"} {
			runRenderCase(t, m, &TrieCase{Keys: keys, Enc: enc, Vals: mkVals(r, "C19", enc, len(keys)), Opt4: all16[r.Intn(16)]})
		}
	}
}

// ---- large renderings (C19big) ---------------------------------------------------
// Tries whose node ids need four, five and six digits.  TLC does not rebuild the Model
// for them: Layer P only.  The event carries the node id of every rendered line, the
// value of every leaf line (32-bit integers) and the values of the retained keys in key
// order as the harness computes them from its own input (a witness of the expected
// leaf column: `retained` is the harness's, not the library's).

func renderBigEv(c *TrieCase, st *trie.SlimTrie, loaded int, params Ev, prevText *string) Ev {
	pan, text := "", ""
	func() {
		defer func() {
			if r := recover(); r != nil {
				pan = fmt.Sprint(r)
			}
		}()
		watched(func() { text = st.String() })
	}()
	ids := []int{}
	leafvals := []int{}
	noid, badval := 0, 0
	if pan == "" && text != "" {
		for _, ln := range strings.Split(text, "\n") {
			i := strings.Index(ln, "#")
			if i < 0 {
				noid++
				continue
			}
			j := i + 1
			for j < len(ln) && ln[j] >= '0' && ln[j] <= '9' {
				j++
			}
			id, err := strconv.Atoi(ln[i+1 : j])
			if err != nil {
				noid++
				continue
			}
			ids = append(ids, id)
			if k := strings.Index(ln[j:], "="); k >= 0 {
				x, err := strconv.ParseInt(ln[j+k+1:], 10, 32)
				if err != nil {
					badval++
				}
				leafvals = append(leafvals, int(x))
			}
		}
	}
	exp := []int{}
	for _, i := range retained(c) {
		exp = append(exp, int(int32(binary.LittleEndian.Uint32(c.Vals[i]))))
	}
	stat := StatEv(st)
	same := 1
	if loaded == 1 && prevText != nil && *prevText != text {
		same = 0
	}
	if prevText != nil && loaded == 0 {
		*prevText = text
	}
	return Ev{"ev": "renderbig", "params": params, "loaded": loaded, "pan": pan, "ids": ids, "leafvals": leafvals, "expvals": exp,
		"noid": noid, "badval": badval, "nodecnt": stat["nodecnt"], "statpan": stat["pan"], "sameasfresh": same, "n": len(c.Keys)}
}

// renderBigCase regenerates a large rendering case from its parameters
func renderBigCase(kind string, n int, kseed int64) *TrieCase {
	r := rand.New(rand.NewSource(kseed))
	fam := kind
	maxLen := 5 + r.Intn(6)
	if fam == "twosym" {
		maxLen = 14
	}
	keys := []string{}
	if strings.HasPrefix(fam, "pairs-") {
		// a palette of C(s,2) two-label bitmaps used often enough for a short table of size s
		// (flat, not a caterpillar: a rendering indents by depth, so a trie thousands of levels
		// deep has a rendering quadratic in its size)
		var P int
		fmt.Sscanf(fam, "pairs-%d", &P)
		pairs := [][2]byte{}
		for a := byte(0); a < 16; a++ {
			for b := a + 1; b < 16; b++ {
				pairs = append(pairs, [2]byte{a, b})
			}
		}
		r.Shuffle(len(pairs), func(i, j int) { pairs[i], pairs[j] = pairs[j], pairs[i] })
		pairs = pairs[:P]
		for g := 0; g < n; g++ {
			pr := pairs[g%P]
			head := []byte{byte(g >> 16), byte(g >> 8), byte(g)}
			keys = append(keys, string(append(append([]byte{}, head...), pr[0]<<4|0x1)), string(append(append([]byte{}, head...), pr[1]<<4|0x7)))
		}
		sort.Strings(keys)
		keys = uniq(keys)
	} else {
		keys = genKeys(r, fam, n, maxLen)
	}
	o4 := all16[r.Intn(16)]
	vals := valsRuns(r, "i32", len(keys), 1+r.Intn(4), 0)
	if strings.HasPrefix(fam, "pairs-") {
		vals = valsFromPattern("i32", len(keys), 0, 0) // every key retained: the palette keeps its counts
	}
	return &TrieCase{Keys: keys, Enc: "i32", Vals: vals, Opt4: o4}
}

func runRenderBig(t *Tracer, m *Meta, kind string, n int, kseed int64) {
	t.NextCase()
	c := renderBigCase(kind, n, kseed)
	m.countCase(c)
	params := Ev{"kind": kind, "nreq": n, "kseed": fmt.Sprint(kseed)}
	st, ec, pan := c.Build()
	if st == nil {
		t.Emit(Ev{"ev": "bigfail", "err": ec, "pan": pan, "n": len(c.Keys)})
		return
	}
	text := ""
	e := renderBigEv(c, st, 0, params, &text)
	t.Emit(e)
	m.Calls++
	m.class(fmt.Sprintf("renderbig:id-digits=%d", len(fmt.Sprint(len(e["ids"].([]int))))))
	if b, err := st.Marshal(); err == nil {
		if sl, err := ParseSlim(b); err == nil {
			if d, err := Decode(sl); err == nil {
				m.class(fmt.Sprintf("renderbig:short-size=%d", d.ShortSize))
			}
		}
	}
	if st2, _, _ := Reload(c, st); st2 != nil {
		t.Emit(renderBigEv(c, st2, 1, params, &text))
		m.Calls++
	}
}

func genRenderBig(t *Tracer, m *Meta, tier string, seed int64) {
	r := rand.New(rand.NewSource(seed*49979687 + 5))
	type spec struct {
		kind string
		n    int
	}
	// ~1.1 .. 2 nodes per key: 4-digit ids from ~700 keys, 5-digit from ~7000, 6-digit from ~70000
	specs := []spec{{"uniform", 800 + r.Intn(400)}, {"ascii", 1500 + r.Intn(1000)}, {"uniform", 7000 + r.Intn(3000)}, {"palette", 9000 + r.Intn(3000)},
		// short tables of the larger sizes: C(s,2) two-label bitmaps, each used often enough
		{"pairs-21", 2600}, {"pairs-28", 7500}}
	if tier != "quick" {
		specs = append(specs, spec{"uniform", 70000 + r.Intn(30000)}, spec{"ascii", 100000}, spec{"twosym", 3000}, spec{"mixed", 20000},
			spec{"pairs-36", 22000}, spec{"pairs-45", 70000})
	}
	for _, sp := range specs {
		runRenderBig(t, m, sp.kind, sp.n, r.Int63())
	}
}
