//go:build !verif
// +build !verif

package main

func genConc(t *Tracer, m *Meta, tier string, seed int64, schedFile string, stressOnly bool) {
	panic("the concurrency family needs the verif build tag (hooks)")
}

func concReplay(t *Tracer, name string, e map[string]interface{}, c **TrieCase, stp interface{}) bool {
	return false
}
