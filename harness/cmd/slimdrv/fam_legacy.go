package main

import (
	"fmt"
	"math/rand"
	"os"
	"strconv"
	"strings"

	"github.com/openacid/slim/trie"
)

// C06: data written by older versions.

// pickV3: a three-section layout as a release wrote it, or (one time in three) the content
// of one release under another of the three header versions the loader accepts
func pickV3(r *rand.Rand) string {
	l := "v3-" + v3Versions[r.Intn(len(v3Versions))]
	if r.Intn(3) == 0 {
		l += "@" + []string{"1.0.0", "0.5.8", "0.5.9"}[r.Intn(3)]
	}
	return l
}

var v3Versions = []string{"0.5.0", "0.5.1", "0.5.3", "0.5.4", "0.5.6", "0.5.7", "0.5.8", "0.5.9"}

// legacyBytes builds the stream of `layout` for case c.
//
//	"v3-<ver>"                   three sections, harness-native writer
//	"v0510-<ver>"                0.5.10 wire form of the trie the real builder makes for c
func legacyBytes(c *TrieCase, layout string) ([]byte, bool) {
	switch {
	case strings.HasPrefix(layout, "v3-"):
		return writeV3(c.Keys, c.Vals, strings.TrimPrefix(layout, "v3-"))
	case strings.HasPrefix(layout, "v0510-"):
		st, _, _ := c.Build()
		if st == nil {
			return nil, false
		}
		b, err := st.Marshal()
		if err != nil {
			return nil, false
		}
		sl, err := ParseSlim(b)
		if err != nil {
			return nil, false
		}
		p := strings.Split(layout, "-")
		return toOld0510(sl, p[len(p)-1]), true
	}
	panic("layout " + layout)
}

func legacyPoolStream(sid int, c *TrieCase, layout string) *poolStream {
	b, ok := legacyBytes(c, layout)
	if !ok {
		panic("legacy stream cannot be written")
	}
	return &poolStream{SID: sid, Case: c, Layout: layout, Ver: headerVersion(b), Bytes: b, Secs: sectionLens(b)}
}

// loadLegacy loads the stream into an instance (that may hold other data).
func loadLegacy(c *TrieCase, b []byte, preload bool) (st *trie.SlimTrie, ec, pan string) {
	defer func() {
		if r := recover(); r != nil {
			st, ec, pan = nil, "", fmt.Sprint(r)
		}
	}()
	var err error
	if preload {
		other := &TrieCase{Keys: []string{"other", "others", "zzz"}, Enc: c.Enc, Vals: [][]byte{encodeVal(c.Enc, 7), encodeVal(c.Enc, 8), encodeVal(c.Enc, 9)}, Opt4: [4]int{2, 2, 2, 2}}
		st, _, _ = other.Build()
	} else {
		st, err = trie.NewSlimTrie(c.encoder(), nil, nil)
		if err != nil {
			return nil, errClass(err), ""
		}
	}
	var err2 error
	watched(func() { err2 = st.Unmarshal(append([]byte{}, b...)) })
	if err := err2; err != nil {
		return nil, errClass(err), ""
	}
	return st, "", ""
}

func legacyEv(c *TrieCase, layout string, b []byte, ec, pan string) Ev {
	e := c.NewEv(ec, pan)
	e["ev"] = "legacy"
	e["layout"] = layout
	e["v3"] = b2i(strings.HasPrefix(layout, "v3-"))
	e["len"] = len(b)
	// Level C (SlimWireOld): the bytes the harness's writer produced, up to 2 KiB, with
	// the last number of the version (three sections: patch 0..9; else minor 10 / 11)
	e["wire"], e["patch"], e["minor"] = []int{}, -1, -1
	if len(b) <= 2048 {
		e["wire"] = bints(b)
	}
	// header version override ("v3-0.5.3@0.5.8"): hpatch = 0 for 1.0.0, 8 or 9; -1 = the writer's own
	e["hpatch"] = -1
	lay := layout
	if i := strings.IndexByte(lay, '@'); i >= 0 {
		hv := lay[i+1:]
		lay = lay[:i]
		e["hpatch"] = 0
		if hv != "1.0.0" {
			q := strings.Split(hv, ".")
			e["hpatch"], _ = strconv.Atoi(q[len(q)-1])
		}
	}
	p := strings.Split(lay, ".")
	last, _ := strconv.Atoi(p[len(p)-1])
	if strings.HasPrefix(layout, "v3-") {
		e["patch"] = last
	} else {
		e["minor"] = last
	}
	return e
}

func runLegacyCase(t *Tracer, m *Meta, r *rand.Rand, c *TrieCase, layout string, qs []string, scans bool) {
	b, ok := legacyBytes(c, layout)
	if !ok {
		m.class("unencodable:" + layout)
		return
	}
	t.NextCase()
	m.countCase(c)
	if strings.HasPrefix(layout, "v0510-") {
		// guard: the stream comes from the real builder; its fresh trie is observed first.
		// If THAT fails, the builder is at fault and the case is inconclusive for C06.
		st0, ec, pan := c.Build()
		t.Emit(c.NewEv(ec, pan))
		if st0 == nil {
			return
		}
		t.Emit(ObsEv(c, st0, "k", c.Keys, nil))
	}
	st, ec, pan := loadLegacy(c, b, r.Intn(3) == 0)
	t.Emit(legacyEv(c, layout, b, ec, pan))
	m.class("layout:" + layout)
	if st == nil {
		return
	}
	if bb, err := st.Marshal(); err == nil {
		if sl, err := ParseSlim(bb); err == nil {
			if d, err := Decode(sl); err == nil {
				t.Emit(TableEv(d))
				if len(c.Keys) <= 700 {
					t.Emit(ProtoEv(sl, nil)) // the re-marshalled conversion, field by field (Level B)
				}
				m.class(shapeClass(d))
			} else {
				t.Emit(Ev{"ev": "tableerr", "msg": err.Error()})
			}
		}
	}
	t.Emit(StatEv(st))
	t.Emit(ObsEv(c, st, "k", c.Keys, nil))
	t.Emit(ObsEv(c, st, "q", qs, floorWitness(c, qs)))
	m.Calls += 4 * (len(c.Keys) + len(qs))
	if scans {
		starts := qs
		if len(starts) > 12 {
			starts = starts[:12]
		}
		for _, rq := range scanPlan(r, c, starts, len(c.Keys) <= 60) {
			t.Emit(runScan(st, rq))
			m.Calls++
		}
	}
	if len(m.Samples) < 3 && len(c.Keys) >= 2 && len(c.Keys) <= 6 {
		m.Samples = append(m.Samples, Ev{"keys": intsList(c.Keys), "enc": c.Enc, "layout": layout, "stream_bytes": len(b)})
	}
}

func layoutOpt(layout string, dd int) [4]int {
	// the content a 0.5.10 stream encodes depends on the options it was built with
	switch {
	case strings.Contains(layout, "innpref"):
		return [4]int{dd, 1, 0, 0}
	case strings.Contains(layout, "allpref"):
		return [4]int{dd, 0, 0, 1}
	}
	return [4]int{dd, 0, 0, 0}
}

func genLegacy(t *Tracer, m *Meta, tier string, seed int64) {
	r := rand.New(rand.NewSource(seed*715225741 + 6))
	quick := tier == "quick"
	// calibration of the writers, every run
	dir := "/repo/trie/testdata"
	if d := os.Getenv("SLIM_TESTDATA"); d != "" {
		dir = d
	}
	cal := calibrateLegacy(dir)
	m.Extra["calibration"] = Ev{"three_section_identical": cal.V3OK, "three_section_different": cal.V3Bad,
		"v0510_identical": cal.V10OK, "v0510_different": cal.V10Bad, "different_files": cal.Bad}
	t.NextCase()
	t.Emit(Ev{"ev": "calibration", "v3ok": cal.V3OK, "v3bad": cal.V3Bad, "v10ok": cal.V10OK, "v10bad": cal.V10Bad})

	fixedEncs := []string{"i32", "i32", "i64", "i16", "i8", "b4"}
	v10 := []string{"v0510-nopref-0.5.10", "v0510-innpref-0.5.10", "v0510-allpref-0.5.10", "v0510-nopref-0.5.11", "v0510-innpref-0.5.11", "v0510-allpref-0.5.11"}
	pickLayouts := func(k int) []string {
		out := []string{}
		for i := 0; i < k; i++ {
			if r.Intn(2) == 0 {
				out = append(out, pickV3(r))
			} else {
				out = append(out, v10[r.Intn(len(v10))])
			}
		}
		return out
	}
	mkCase := func(keys []string, layout string) *TrieCase {
		enc := fixedEncs[r.Intn(len(fixedEncs))]
		c := &TrieCase{Keys: keys, Enc: enc}
		if strings.HasPrefix(layout, "v3-") {
			c.Vals = valsFromPattern(enc, len(keys), 0, int64(r.Intn(100)))
			if r.Intn(3) == 0 {
				c.Vals = valsRuns(r, enc, len(keys), 4, 0) // old writers index every key
			}
			c.Opt4 = [4]int{0, 0, 0, 0}
		} else {
			c.Opt4 = layoutOpt(layout, r.Intn(2))
			c.Vals = mkVals(r, "C06", enc, len(keys))
		}
		return c
	}
	run := func(keys []string, layout string, qs []string) {
		// v0510 layout names carry the mode and the header version: v0510-<mode>-<ver>
		real := layout
		if strings.HasPrefix(layout, "v0510-") {
			p := strings.Split(layout, "-")
			real = "v0510-" + p[2] // what legacyBytes needs: the header version
			_ = real
		}
		c := mkCase(keys, layout)
		runLegacyCase(t, m, r, c, layout, qs, strings.Contains(layout, "allpref"))
	}
	// (1) universes
	budgetU := 900
	if !quick {
		budgetU = 12000
	}
	for ui, u := range universes {
		strs := u.Strings()
		total := u.EachKeyList(1<<30, 1, func([]string) {})
		stride := total/(budgetU/len(universes)) + 1
		off := int(seed+int64(ui)*13) % stride
		u.EachKeyList(stride, off, func(keys []string) {
			for _, l := range pickLayouts(1) {
				run(keys, l, strs)
			}
		})
		m.class("universe:" + u.Name)
	}
	// (2) medium tries: every family, every layout class
	nMed, maxN := 36, 500
	if !quick {
		nMed, maxN = 120, 2000
	}
	fams := append([]string{}, familyNames...)
	fams = append(fams, "comb", "longprefix")
	for i := 0; i < nMed; i++ {
		fam := fams[i%len(fams)]
		var keys []string
		if fam == "longprefix" {
			// steps > 255 half-bytes, optionally below the empty key
			keys = genKeys(r, "nibdiv", 2+r.Intn(40), 4)
			p := strings.Repeat("xy", 100+r.Intn(200))
			for j := range keys {
				keys[j] = p + keys[j]
			}
			if r.Intn(2) == 0 {
				keys = append([]string{""}, keys...)
			}
		} else {
			keys = genKeys(r, fam, 2+r.Intn(maxN), 1+r.Intn(12))
		}
		if len(keys) > maxN {
			keys = keys[:maxN]
		}
		qs := querySet(r, keys, 200)
		for _, l := range pickLayouts(2) {
			run(keys, l, qs)
		}
		m.class("family:" + fam)
	}
	// (2a) special shapes in the 0.5.10/0.5.11 layouts (these have 257-bit and short nodes)
	for i := 0; i < 4; i++ {
		c0 := bigMimicCase(r, "i32")
		if i%2 == 1 {
			c0 = dedupBigCase(r, "i32")
		}
		layout := v10[r.Intn(len(v10))]
		c := &TrieCase{Keys: c0.Keys, Enc: "i32", Vals: c0.Vals, Opt4: layoutOpt(layout, i%2)}
		runLegacyCase(t, m, r, c, layout, querySet(r, c.Keys, 120), strings.Contains(layout, "allpref"))
		m.class([]string{"special:bigmimic", "special:dedupbig"}[i%2])
	}
	// (2b) word-boundary shapes (leaf counts, node counts, inner counts on 64-bit edges)
	nB := 30
	if !quick {
		nB = 200
	}
	for i := 0; i < nB; i++ {
		ci := (i + int(seed)) % len(boundaryConds)
		fam := boundaryFamilies[r.Intn(len(boundaryFamilies))]
		keys := seekBoundary(r, fam, ci, [4]int{0, 0, 0, 0})
		if keys == nil {
			continue
		}
		qs := querySet(r, keys, 120)
		qs = append(qs, keys[len(keys)-1], keys[len(keys)-2])
		for _, l := range pickLayouts(2) {
			run(keys, l, uniq(append([]string{}, qs...)))
		}
		m.class("boundary:" + boundaryConds[ci].Name)
	}
	// (2c) exact key counts around multiples of 64 for the leaf-size reconstruction
	for _, n := range []int{63, 64, 65, 127, 128, 129, 192, 256} {
		keys := []string{}
		for i := 0; i < n; i++ {
			keys = append(keys, fmt.Sprintf("k%04d", i*7))
		}
		qs := querySet(r, keys, 60)
		for _, l := range []string{v10[r.Intn(len(v10))], pickV3(r)} {
			run(keys, l, qs)
		}
		m.class("keycount:multiple-of-64-edge")
	}
	// (2d) steps near the 16-bit capacity of the old step array (stored step = skipped
	// half-bytes + 1 <= 65535) and around its signed 16-bit boundary
	longRuns := []int{32766, 32767, 32768, 32769, 40001, 65533, 65534}
	if quick {
		longRuns = []int{32767, 32768, 32769, 65534}
	}
	for _, L := range longRuns {
		common := strings.Repeat(string([]byte{byte(0x30 + r.Intn(64))}), L/2)
		var keys []string
		if L%2 == 0 {
			keys = []string{common + "\x12", common + "\x87", common + "\x87\x01"}
		} else {
			keys = []string{common + "\x51", common + "\x5e"}
		}
		if r.Intn(2) == 0 {
			keys = append([]string{"\x00"}, keys...)
		}
		for _, l := range []string{pickV3(r), pickV3(r)} {
			run(keys, l, append(append([]string{}, keys...), common, "x"))
		}
		m.class("old-step:" + runClass(L))
	}
	// (3) degenerate: the empty key set and the single key in every layout
	all := append([]string{}, v10...)
	for _, v := range v3Versions {
		all = append(all, "v3-"+v)
		// every children encoding under every header version the loader lists
		for _, h := range []string{"1.0.0", "0.5.8", "0.5.9"} {
			all = append(all, "v3-"+v+"@"+h)
		}
	}
	for _, l := range all {
		for _, keys := range [][]string{{}, {""}, {"a"}, {"", "a"}, {"a", "ab", "abc"}} {
			run(keys, l, []string{"", "a", "ab", "abc", "b", "\x00", "abcd"})
		}
	}
}
