package main

import (
	"fmt"
	"math/rand"
	"sort"
	"strings"

	"github.com/openacid/slim/index"
)

// C12: SlimIndex + a key-verifying reader.

// blockReader: records live in blocks; the reader is given a block offset and the
// key and returns the record only if a record with exactly that key is in the block.
type blockReader struct {
	blocks map[int64][]int // offset -> record numbers (1-based) stored there
	keys   []string
	reads  int
}

func (b *blockReader) Read(offset int64, key string) (string, bool) {
	b.reads++
	for _, rn := range b.blocks[offset] {
		if b.keys[rn-1] == key {
			return fmt.Sprintf("rec-%d", rn), true
		}
	}
	return "", false
}

// indexEv: mode "get": one offset per key; mode "rget": block offsets shared by
// `block` adjacent keys.
// bigIndex marks the cases TLC judges by Layer P only
var bigIndex bool

func indexEv(keys []string, offs []int64, mode string, block int, qs []string) Ev {
	br := &blockReader{blocks: map[int64][]int{}, keys: keys}
	items := make([]index.OffsetIndexItem, len(keys))
	for i, k := range keys {
		items[i] = index.OffsetIndexItem{Key: k, Offset: offs[i]}
		br.blocks[offs[i]] = append(br.blocks[offs[i]], i+1)
	}
	e := Ev{"ev": "index", "big": b2i(bigIndex || len(keys) > 5000), "mode": mode, "block": block, "keys": intsList(keys), "qs": intsList(qs), "err": "", "pan": ""}
	ov := [][]int{}
	for _, o := range offs {
		ov = append(ov, bints(le(uint64(o), 8)))
	}
	e["offs"] = ov
	ans := make([]interface{}, len(qs))
	for i := range ans {
		ans[i] = []int{-9, 0}
	}
	e["ans"] = ans
	// floor witnesses among ALL keys (every key is a record)
	fp := make([]int, len(qs))
	for i, q := range qs {
		fp[i] = sort.Search(len(keys), func(j int) bool { return keys[j] > q })
	}
	e["fp"] = fp
	func() {
		defer func() {
			if r := recover(); r != nil {
				e["pan"] = fmt.Sprint(r)
			}
		}()
		var si *index.SlimIndex
		var err error
		watched(func() { si, err = index.NewSlimIndex(items, br) })
		if err != nil {
			e["err"] = errClass(err)
			return
		}
		for i, q := range qs {
			var rec string
			var ok bool
			func() {
				defer func() {
					if r := recover(); r != nil {
						e["pan"] = fmt.Sprintf("query %d: %v", i, r)
					}
				}()
				if mode == "get" {
					watched(func() { rec, ok = si.Get(q) })
				} else {
					watched(func() { rec, ok = si.RangeGet(q) })
				}
				rn := 0
				if ok {
					fmt.Sscanf(rec, "rec-%d", &rn)
				}
				ans[i] = []int{b2i(ok), rn}
			}()
		}
	}()
	return e
}

func mkOffsets(r *rand.Rand, n, block int) []int64 {
	offs := make([]int64, n)
	o := int64(r.Intn(1000))
	switch r.Intn(8) {
	case 0:
		o += 1 << 40 // needs all 8 bytes
	case 1:
		o += 1<<31 - 3000 // crosses the signed 32-bit boundary inside the list
	case 2:
		o += 1<<32 - 3000 // crosses the unsigned 32-bit boundary inside the list
	case 3:
		o += 1 << 62
	}
	for i := 0; i < n; i++ {
		if i%block == 0 {
			o += int64(1 + r.Intn(5000))
		}
		offs[i] = o
	}
	return offs
}

func genIndex(t *Tracer, m *Meta, tier string, seed int64) {
	r := rand.New(rand.NewSource(seed*633910099 + 12))
	quick := tier == "quick"
	var explicitOffs []int64
	emit := func(keys []string, block int, qs []string) {
		mode := "rget"
		if block == 1 {
			mode = "get"
		}
		t.NextCase()
		m.Cases++
		c := &TrieCase{Keys: keys, Enc: "i64", Opt4: [4]int{2, 2, 2, 2}}
		_ = c
		offs := explicitOffs
		if offs == nil {
			offs = mkOffsets(r, len(keys), block)
		}
		t.Emit(indexEv(keys, offs, mode, block, qs))
		m.Calls += len(qs)
		if len(keys) >= 2 {
			m.Distinct++
		}
		m.class(fmt.Sprintf("mode:%s", mode))
	}
	budgetU := 1500
	if !quick {
		budgetU = 16000
	}
	for ui, u := range universes {
		strs := u.Strings()
		total := u.EachKeyList(1<<30, 1, func([]string) {})
		stride := total/(budgetU/len(universes)) + 1
		off := int(seed+int64(ui)*11) % stride
		u.EachKeyList(stride, off, func(keys []string) {
			block := 1
			if r.Intn(2) == 0 {
				block = 1 + r.Intn(4)
			}
			emit(keys, block, strs)
		})
		m.class("universe:" + u.Name)
	}
	nMed, maxN := 40, 600
	if !quick {
		nMed, maxN = 120, 2000
	}
	for i := 0; i < nMed; i++ {
		fam := familyNames[i%len(familyNames)]
		keys := genKeys(r, fam, 2+r.Intn(maxN), 1+r.Intn(16))
		if len(keys) > maxN {
			keys = keys[:maxN]
		}
		block := []int{1, 1, 2, 3, 7, 8, 16, 33, 64}[r.Intn(9)]
		qs := querySet(r, keys, 250)
		for j := 0; j < 60 && j < len(keys); j++ {
			qs = append(qs, keys[r.Intn(len(keys))])
		}
		sort.Strings(qs)
		emit(keys, block, uniq(qs))
		m.class("family:" + fam)
		m.class(fmt.Sprintf("block:%d", block))
	}
	// the special shapes of the lookup family, indexed: a 257-bit node whose bitmap mimics a
	// popular 17-bit one; 257-bit nodes thinned by de-duplication (a BLOCK = a key and all its
	// one-byte extensions, so the shared block offset plays the part of the repeated value);
	// a full 257-bit node; counts on word boundaries
	withKeys := func(keys []string, limit int) []string {
		qs := querySet(r, keys, limit)
		for j := 0; j < 80 && j < len(keys); j++ {
			qs = append(qs, keys[r.Intn(len(keys))])
		}
		sort.Strings(qs)
		return uniq(qs)
	}
	nSpec := 4
	if !quick {
		nSpec = 24
	}
	for i := 0; i < nSpec; i++ {
		switch i % 4 {
		case 0:
			c := bigMimicCase(r, "i64")
			emit(c.Keys, []int{1, 2, 3}[r.Intn(3)], withKeys(c.Keys, 150))
			m.class("special:bigmimic")
		case 1:
			c := dedupBigCase(r, "i64")
			// one block per run of equal values
			offs := make([]int64, len(c.Keys))
			o := int64(r.Intn(1000))
			for j := range c.Keys {
				if j == 0 || string(c.Vals[j]) != string(c.Vals[j-1]) {
					o += int64(1 + r.Intn(5000))
				}
				offs[j] = o
			}
			explicitOffs = offs
			emit(c.Keys, 0, withKeys(c.Keys, 150))
			explicitOffs = nil
			m.class("special:dedupbig")
		case 2:
			keys := []string{""}
			for b := 0; b < 256; b++ {
				keys = append(keys, string([]byte{byte(b)}))
				if b%29 == 0 {
					keys = append(keys, string([]byte{byte(b), byte(r.Intn(256))}))
				}
			}
			sort.Strings(keys)
			emit(uniq(keys), []int{1, 4}[r.Intn(2)], withKeys(keys, 200))
			m.class("special:full-257")
		case 3:
			fam := boundaryFamilies[r.Intn(len(boundaryFamilies))]
			keys := seekBoundary(r, fam, i/4+int(seed), [4]int{2, 2, 2, 2})
			if keys != nil {
				qs := withKeys(keys, 100)
				qs = append(qs, keys[len(keys)-1], keys[len(keys)-1]+"\x00")
				sort.Strings(qs)
				emit(keys, 1, uniq(qs))
				m.class("special:boundary")
			}
		}
	}
	// long shared runs between branch points (steps in the upper half of the 16-bit counter)
	for _, L := range []int{16000, 16500, 30000} {
		common := strings.Repeat(string([]byte{byte(0x41 + r.Intn(20))}), L)
		keys := []string{common + "1", common + "2x", common + "2y", common + "z"}
		if r.Intn(2) == 0 {
			keys = append([]string{"0"}, keys...)
		}
		for _, block := range []int{1, 2, 3} {
			emit(keys, block, append(append([]string{}, keys...), common, common+"2", "zz"))
		}
		m.class("long-shared-run")
	}
	// more than 2^16 records (node ids, leaf ordinals and offsets beyond 16 bits): Layer P only
	// (floor witnesses verified by the spec; the Model is not rebuilt for these)
	for bi, block := range []int{1, 16} {
		if quick && bi != int(seed)%2 {
			continue
		}
		set := map[string]bool{}
		for len(set) < 70000 {
			set[randBytes(r, 3+r.Intn(7), nil)] = true
		}
		keys := make([]string, 0, len(set))
		for k := range set {
			keys = append(keys, k)
		}
		sort.Strings(keys)
		qs := []string{"", keys[0], keys[len(keys)-1], keys[len(keys)-1] + "\x00", "\xff\xff\xff\xff\xff\xff\xff\xff\xff\xff\xff"}
		for j := 0; j < 300; j++ {
			k := keys[r.Intn(len(keys))]
			if j > 200 {
				k = keys[len(keys)-1-r.Intn(500)] // the last records: the largest ordinals
			}
			switch j % 4 {
			case 1:
				k = k[:r.Intn(len(k)+1)]
			case 2:
				k += string([]byte{byte(r.Intn(256))})
			}
			qs = append(qs, k)
		}
		sort.Strings(qs)
		bigIndex = true
		emit(keys, block, uniq(qs))
		bigIndex = false
		m.class("large:70000-records")
	}
	emit([]string{}, 1, []string{"", "a"})
	emit([]string{"a"}, 1, []string{"", "a", "b", "a\x00"})
	m.Samples = append(m.Samples, Ev{"keys": 3, "block": 2, "offsets": "shared per block of 2 adjacent keys", "queries": "every string of the universe"})
}
