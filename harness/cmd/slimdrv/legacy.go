package main

import (
	"bytes"
	"encoding/binary"
	"fmt"
	"io/ioutil"
	"math/bits"
	"path/filepath"
	"strings"

	"github.com/golang/protobuf/proto"
	"github.com/openacid/low/pbcmpl"
	"github.com/openacid/slim/array"
	"github.com/openacid/slim/trie"
	"github.com/openacid/testkeys"
)

// The harness's OWN writers of the historical layouts.  No old writer exists in the
// repository, so these are reconstructions; they are CALIBRATED on every run
// against the 97 archived fixture files (byte for byte) -- see calibrateLegacy.
//
// Three-section layouts (0.5.0 .. 0.5.9): written from the harness's own old-trie
// builder, independent of the library's builder and loader.
// 0.5.10 / 0.5.11: a wire transformation of a current-format message.

type vmsg struct {
	*array.Array32
	ver string
}

func (v *vmsg) GetVersion() string { return v.ver }

func nibLenS(k string) int { return 2 * len(k) }
func nibS(k string, i int) int {
	b := k[i/2]
	if i%2 == 0 {
		return int(b >> 4)
	}
	return int(b & 0xf)
}
func fdnS(a, b string) int {
	n := nibLenS(a)
	if nibLenS(b) < n {
		n = nibLenS(b)
	}
	// bytewise first, then the half-byte
	nb := n / 2
	i := 0
	for i < nb && a[i] == b[i] {
		i++
	}
	if i == nb {
		return n
	}
	if a[i]>>4 != b[i]>>4 {
		return 2 * i
	}
	return 2*i + 1
}

type onode struct {
	inner    bool
	leaf     bool
	bm       uint16
	first    int
	step     int // skipped half-bytes + 1
	leafStep int
	val      int // index of the key
}

func buildOld(keys []string) []onode {
	type sub struct{ s, e, from int }
	if len(keys) == 0 {
		return nil
	}
	q := []sub{{0, len(keys), 0}}
	nodes := []onode{}
	// first differing half-byte of adjacent keys, once
	fd := make([]int, len(keys))
	for x := 0; x+1 < len(keys); x++ {
		fd[x] = fdnS(keys[x], keys[x+1])
	}
	for i := 0; i < len(q); i++ {
		o := q[i]
		if o.e-o.s == 1 {
			nodes = append(nodes, onode{leaf: true, val: o.s, leafStep: nibLenS(keys[o.s]) - o.from + 1})
			continue
		}
		ws := 1 << 30
		for x := o.s; x < o.e-1; x++ {
			if fd[x] < ws {
				ws = fd[x]
			}
		}
		n := onode{inner: true, step: ws - o.from + 1, first: len(q)}
		s := o.s
		if nibLenS(keys[s]) == ws {
			n.leaf = true
			n.val = s
			s++
		}
		for s < o.e {
			l := nibS(keys[s], ws)
			j := s + 1
			for j < o.e && nibS(keys[j], ws) == l {
				j++
			}
			n.bm |= 1 << uint(l)
			q = append(q, sub{s, j, ws + 1})
			s = j
		}
		nodes = append(nodes, n)
	}
	return nodes
}

func mkArray32(idx []int32, elts []byte, total int, ext bool) *array.Array32 {
	a := &array.Array32{Cnt: int32(len(idx)), Elts: elts}
	n := 0
	if len(idx) > 0 {
		n = int(idx[len(idx)-1]) + 1
	}
	if ext && total > n {
		n = total
	}
	nw := (n + 63) / 64
	if nw > 0 {
		a.Bitmaps = make([]uint64, nw)
		a.Offsets = make([]int32, nw)
	}
	for _, i := range idx {
		a.Bitmaps[i>>6] |= 1 << uint(i&63)
	}
	r := int32(0)
	for i, w := range a.Bitmaps {
		if w != 0 {
			a.Offsets[i] = r
		}
		r += int32(bits.OnesCount64(w))
	}
	return a
}

// maxOldStep: steps are 16-bit in the old layouts
const maxOldStep = 0xffff

// writeV3 writes keys (values: vals[i], all of one width) in the layout of version
// ver ("0.5.0" .. "0.5.9").  ok=false if the old writers could not encode the keys.
func writeV3(keys []string, vals [][]byte, ver string) (out []byte, ok bool) {
	nodes := buildOld(keys)
	// "<writer version>" or "<writer version>@<header version>": the property lists every
	// children encoding under every one of the three header versions, also the combinations
	// no release wrote (0.5.3 content under a 0.5.8 header, ...)
	hover := ""
	if i := strings.IndexByte(ver, '@'); i >= 0 {
		ver, hover = ver[:i], ver[i+1:]
	}
	var v [3]int
	fmt.Sscanf(ver, "%d.%d.%d", &v[0], &v[1], &v[2])
	patch := v[2]
	hver := "1.0.0"
	if patch >= 8 {
		hver = ver
	}
	if hover != "" {
		hver = hover
	}
	ext := patch >= 9
	total := len(nodes)
	var cidx, sidx, lidx []int32
	var celts, selts, lelts []byte
	var bmwords []uint64
	nb := 0
	for id, n := range nodes {
		if n.inner {
			if n.step > maxOldStep {
				return nil, false
			}
			cidx = append(cidx, int32(id))
			if patch <= 3 {
				b := make([]byte, 4)
				binary.LittleEndian.PutUint32(b, uint32(n.bm)|uint32(n.first)<<16)
				celts = append(celts, b...)
			} else {
				if nb%4 == 0 {
					bmwords = append(bmwords, 0)
				}
				bmwords[nb/4] |= uint64(n.bm) << uint(16*(nb%4))
				nb++
			}
			if n.step > 1 {
				sidx = append(sidx, int32(id))
				b := make([]byte, 2)
				binary.LittleEndian.PutUint16(b, uint16(n.step))
				selts = append(selts, b...)
			}
		} else if patch == 0 && n.leafStep > 1 {
			if n.leafStep > maxOldStep {
				return nil, false
			}
			sidx = append(sidx, int32(id))
			b := make([]byte, 2)
			binary.LittleEndian.PutUint16(b, uint16(n.leafStep))
			selts = append(selts, b...)
		}
		if n.leaf {
			lidx = append(lidx, int32(id))
			lelts = append(lelts, vals[n.val]...)
		}
	}
	ch := mkArray32(cidx, celts, total, ext)
	if patch >= 4 && !(patch >= 7 && len(nodes) == 0) {
		ch.Flags = 3
		ch.EltWidth = 16
		bmx := &array.Bits{Words: bmwords}
		for i := len(bmwords) - 1; i >= 0; i-- {
			if bmwords[i] != 0 {
				bmx.N = int32(i*64 + 64 - bits.LeadingZeros64(bmwords[i]))
				break
			}
		}
		r := int32(0)
		for i := 0; i < len(bmwords); i += 2 {
			bmx.RankIndex = append(bmx.RankIndex, r)
			r += int32(bits.OnesCount64(bmwords[i]))
			if i+1 < len(bmwords) {
				r += int32(bits.OnesCount64(bmwords[i+1]))
			}
		}
		if len(bmwords)%2 == 0 {
			bmx.RankIndex = append(bmx.RankIndex, r)
		}
		ch.BMElts = bmx
	}
	st := mkArray32(sidx, selts, total, ext)
	lv := mkArray32(lidx, lelts, total, ext)
	buf := &bytes.Buffer{}
	for _, a := range []*array.Array32{ch, st, lv} {
		if _, err := pbcmpl.Marshal(buf, &vmsg{a, hver}); err != nil {
			panic(err)
		}
	}
	return buf.Bytes(), true
}

// ---- 0.5.10 / 0.5.11 ---------------------------------------------------------------

// Slim0510 is the 0.5.10 wire form of Slim, with the later-removed fields 12, 13, 15.
type Slim0510 struct {
	BigInnerCnt     int32           `protobuf:"varint,11,opt,name=BigInnerCnt,proto3"`
	BigInnerOffset  int32           `protobuf:"varint,12,opt,name=BigInnerOffset,proto3"`
	ShortMinusInner int32           `protobuf:"varint,13,opt,name=ShortMinusInner,proto3"`
	ShortSize       int32           `protobuf:"varint,14,opt,name=ShortSize,proto3"`
	ShortMask       uint64          `protobuf:"varint,15,opt,name=ShortMask,proto3"`
	NodeTypeBM      *trie.Bitmap    `protobuf:"bytes,20,opt,name=NodeTypeBM,proto3"`
	Inners          *trie.Bitmap    `protobuf:"bytes,30,opt,name=Inners,proto3"`
	ShortBM         *trie.Bitmap    `protobuf:"bytes,31,opt,name=ShortBM,proto3"`
	ShortTable      []uint32        `protobuf:"varint,32,rep,packed,name=ShortTable,proto3"`
	InnerPrefixes   *trie.VLenArray `protobuf:"bytes,38,opt,name=InnerPrefixes,proto3"`
	LeafPrefixes    *trie.VLenArray `protobuf:"bytes,58,opt,name=LeafPrefixes,proto3"`
	Leaves          *trie.VLenArray `protobuf:"bytes,60,opt,name=Leaves,proto3"`
	ver             string
}

func (m *Slim0510) Reset()             { *m = Slim0510{} }
func (m *Slim0510) String() string     { return "slim0510" }
func (m *Slim0510) ProtoMessage()      {}
func (m *Slim0510) GetVersion() string { return m.ver }

// toOld0510 rewrites a current-format message into the 0.5.10 wire form:
// control-byte prefixes, bare leaf bytes, word-granular select index, fields 12/13/15.
func toOld0510(cur0 *trie.Slim, ver string) []byte {
	cur := proto.Clone(cur0).(*trie.Slim)
	cur.XXX_unrecognized = nil
	if cur.NodeTypeBM == nil {
		buf := &bytes.Buffer{}
		pbcmpl.Marshal(buf, &Slim0510{ver: ver})
		return buf.Bytes()
	}
	for _, va := range []*trie.VLenArray{cur.InnerPrefixes, cur.LeafPrefixes} {
		if va != nil && va.PositionBM != nil {
			for i := range va.PositionBM.SelectIndex {
				va.PositionBM.SelectIndex[i] >>= 6
			}
		}
	}
	o := &Slim0510{ver: ver, BigInnerCnt: cur.BigInnerCnt, ShortSize: cur.ShortSize, NodeTypeBM: cur.NodeTypeBM, Inners: cur.Inners, ShortBM: cur.ShortBM, ShortTable: cur.ShortTable, LeafPrefixes: cur.LeafPrefixes}
	o.BigInnerOffset = (257 - 17) * cur.BigInnerCnt
	o.ShortMinusInner = cur.ShortSize - 17
	o.ShortMask = (uint64(1) << uint(cur.ShortSize)) - 1
	ip := cur.InnerPrefixes
	if ip != nil && ip.PositionBM != nil && len(ip.Bytes) > 0 {
		pos := []int{}
		for wi, w := range ip.PositionBM.Words {
			for ; w != 0; w &= w - 1 {
				pos = append(pos, wi*64+bits.TrailingZeros64(w))
			}
		}
		for i := 0; i+1 < len(pos); i++ {
			e := ip.Bytes[pos[i]:pos[i+1]]
			l := len(e)
			mask := e[l-1]
			nb := bits.OnesCount8(mask) // effective bits in the last payload byte
			payload := append([]byte{}, e[:l-1]...)
			ctrl := byte(0)
			if nb != 8 {
				ctrl = 1
				payload[len(payload)-1] |= 1 << uint(7-nb)
			}
			copy(e, append([]byte{ctrl}, payload...))
		}
	}
	o.InnerPrefixes = ip
	if cur.Leaves != nil {
		o.Leaves = &trie.VLenArray{Bytes: cur.Leaves.Bytes}
	}
	buf := &bytes.Buffer{}
	if _, err := pbcmpl.Marshal(buf, o); err != nil {
		panic(err)
	}
	return buf.Bytes()
}

// ---- calibration against the archived fixtures ------------------------------------------

type calibResult struct {
	V3OK, V3Bad, V10OK, V10Bad int
	Bad                        []string
}

func calibrateLegacy(dir string) calibResult {
	res := calibResult{}
	fis, err := ioutil.ReadDir(dir)
	if err != nil {
		res.Bad = append(res.Bad, "cannot read "+dir)
		return res
	}
	for _, fi := range fis {
		fn := fi.Name()
		parts := strings.Split(fn, "-")
		if !strings.HasPrefix(fn, "slimtrie-data-") {
			continue
		}
		want, _ := ioutil.ReadFile(filepath.Join(dir, fn))
		switch len(parts) {
		case 4: // slimtrie-data-<keys>-<ver>: three sections
			keys := testkeys.Load(parts[2])
			vals := make([][]byte, len(keys))
			for i := range vals {
				vals[i] = le(uint64(i), 4)
			}
			got, ok := writeV3(keys, vals, parts[3])
			if ok && bytes.Equal(got, want) {
				res.V3OK++
			} else {
				res.V3Bad++
				res.Bad = append(res.Bad, fn)
			}
		case 5: // slimtrie-data-<keys>-<mode>-<ver>: 0.5.10
			keys := testkeys.Load(parts[2])
			vals := make([][]byte, len(keys))
			for i := range vals {
				vals[i] = le(uint64(i), 4)
			}
			c := &TrieCase{Keys: keys, Enc: "i32", Vals: vals, Opt4: [4]int{2, 2, 2, 2}}
			switch parts[3] {
			case "innpref":
				c.Opt4[1] = 1
			case "allpref":
				c.Opt4[3] = 1
			}
			st, _, _ := c.Build()
			okc := false
			if st != nil {
				if b, err := st.Marshal(); err == nil {
					if sl, err := ParseSlim(b); err == nil {
						okc = bytes.Equal(toOld0510(sl, "0.5.10"), want)
					}
				}
			}
			if okc {
				res.V10OK++
			} else {
				res.V10Bad++
				res.Bad = append(res.Bad, fn)
			}
		}
	}
	return res
}
