//go:build verif
// +build verif

package main

import "github.com/openacid/slim/trie"

// recordStages runs f with the verification hook recording the Unmarshal stages
// reached (the critical sections of the multi-step load action of the spec).
func recordStages(f func()) []string {
	stages := []string{}
	old := trie.VerifHook
	trie.VerifHook = func(site string, a, b int32) {
		switch site {
		case "Unmarshal.header":
			stages = append(stages, "header")
		case "Unmarshal.body":
			stages = append(stages, "body")
		}
	}
	defer func() { trie.VerifHook = old }()
	f()
	return stages
}
