package main

import (
	"crypto/sha1"
	"encoding/hex"
	"fmt"
	"math/rand"
	"sort"
	"strings"

	"github.com/golang/protobuf/proto"

	"github.com/openacid/slim/trie"
)

// Meta is what a generator run reports about itself (goes into the evidence).
type Meta struct {
	Cases      int                    `json:"cases"`
	Events     int                    `json:"events"`
	Calls      int                    `json:"calls"`
	Distinct   int                    `json:"distinct_nontrivial"`
	Rule       string                 `json:"rule"`
	Samples    []interface{}          `json:"samples"`
	Classes    map[string]int         `json:"classes"`
	Exhaustive bool                   `json:"exhaustive"`
	Extra      map[string]interface{} `json:"extra"`
	seen       map[string]bool
}

func newMeta(rule string) *Meta {
	return &Meta{Rule: rule, Classes: map[string]int{}, Extra: map[string]interface{}{}, seen: map[string]bool{}}
}

func (m *Meta) class(name string) { m.Classes[name]++ }

func caseHash(c *TrieCase) string {
	h := sha1.New()
	for _, k := range c.Keys {
		h.Write([]byte{byte(len(k) >> 8), byte(len(k))})
		h.Write([]byte(k))
	}
	h.Write([]byte(c.Enc))
	for _, v := range c.Vals {
		h.Write([]byte{byte(len(v))})
		h.Write(v)
	}
	h.Write([]byte{byte(c.Opt4[0]), byte(c.Opt4[1]), byte(c.Opt4[2]), byte(c.Opt4[3]), byte(b2i(c.NoOpt))})
	return hex.EncodeToString(h.Sum(nil)[:10])
}

func (m *Meta) countCase(c *TrieCase) {
	m.Cases++
	if len(c.Keys) >= 2 {
		h := caseHash(c)
		if !m.seen[h] {
			m.seen[h] = true
			m.Distinct++
		}
	}
}

// lookupOpts controls what a lookup case records.
type lookupOpts struct {
	allQueries []string // if non-nil: use exactly these queries (universe strings)
	qlimit     int
	table      bool
	loaded     bool // also observe the trie reloaded from its own bytes
	keysObs    bool
	mcheck     bool // C05: determinism and size of Marshal
	extraQ     []string // further queries (e.g. tens of thousands of bytes long)
}

// McheckEv: Marshal is deterministic, its length is the advertised size, and
// re-marshalling a loaded trie reproduces the bytes.
func McheckEv(c *TrieCase, st *trie.SlimTrie) (e Ev) {
	e = Ev{"ev": "mcheck", "pan": "", "mlen": -1, "psize": -2, "twice": 0, "rebuilt": 0, "remarshal": 0, "protomarshal": 0}
	defer func() {
		if r := recover(); r != nil {
			e["pan"] = fmt.Sprint(r)
		}
	}()
	b1, err := st.Marshal()
	if err != nil {
		e["pan"] = "error: " + err.Error()
		return
	}
	e["mlen"] = len(b1)
	e["psize"] = proto.Size(st)
	b2, _ := st.Marshal()
	e["twice"] = b2i(string(b1) == string(b2))
	// independent builds from equal input: byte-identical, every time
	same := true
	for i := 0; i < 6; i++ {
		if st2, _, _ := c.Build(); st2 != nil {
			b3, _ := st2.Marshal()
			if string(b1) != string(b3) {
				same = false
			}
		} else {
			same = false
		}
	}
	e["rebuilt"] = b2i(same)
	if st3, _, _ := Reload(c, st); st3 != nil {
		b4, _ := st3.Marshal()
		e["remarshal"] = b2i(string(b1) == string(b4))
	}
	if b5, err := proto.Marshal(st); err == nil {
		e["protomarshal"] = b2i(string(b1) == string(b5))
	}
	return
}

// runLookupCase executes one case against the real library and emits its events.
func runLookupCase(t *Tracer, m *Meta, r *rand.Rand, c *TrieCase, lo lookupOpts) {
	t.NextCase()
	m.countCase(c)
	st, ec, pan := c.Build()
	t.Emit(c.NewEv(ec, pan))
	if st == nil {
		m.class("new:" + ec + pan2class(pan))
		return
	}
	var qs []string
	if lo.allQueries != nil {
		qs = lo.allQueries
	} else {
		qs = querySet(r, c.Keys, lo.qlimit)
	}
	if len(lo.extraQ) > 0 {
		qs = append(qs, lo.extraQ...)
		sort.Strings(qs)
		qs = uniq(qs)
	}
	fp := floorWitness(c, qs)
	phase := func(st *trie.SlimTrie, withTable bool) {
		if withTable {
			b, err := st.Marshal()
			if err == nil {
				if sl, err := ParseSlim(b); err == nil {
					if d, err := Decode(sl); err == nil {
						t.Emit(TableEv(d))
						if len(c.Keys) <= 700 {
							t.Emit(ProtoEv(sl, b))
						}
						m.class(shapeClass(d))
					} else {
						t.Emit(Ev{"ev": "tableerr", "msg": err.Error()})
					}
				}
			}
		}
		t.Emit(StatEv(st))
		if lo.mcheck {
			t.Emit(McheckEv(c, st))
		}
		if lo.keysObs {
			t.Emit(ObsEv(c, st, "k", c.Keys, nil))
			m.Calls += 4 * len(c.Keys)
		}
		t.Emit(ObsEv(c, st, "q", qs, fp))
		m.Calls += 4 * len(qs)
	}
	phase(st, lo.table)
	if lo.loaded {
		st2, ec, pan := Reload(c, st)
		t.Emit(Ev{"ev": "load", "err": ec, "pan": pan})
		if st2 != nil {
			phase(st2, false)
		}
	}
	if len(m.Samples) < 3 && len(c.Keys) >= 2 && len(c.Keys) <= 8 {
		m.Samples = append(m.Samples, Ev{"keys": intsList(c.Keys), "enc": c.Enc, "opt": c.Opt4, "queries": len(qs)})
	}
}

func pan2class(p string) string {
	if p == "" {
		return ""
	}
	return "panic"
}

// shapeClass names the structural class of a decoded trie (for the evidence:
// which node kinds the run actually reached).
func shapeClass(d *Decoded) string {
	s := []string{}
	if d.BigCnt > 0 {
		s = append(s, "big")
	}
	if d.ShortCnt > 0 {
		s = append(s, "short"+itoa(d.ShortSize))
	}
	if d.InnerCnt > 64 {
		s = append(s, "inner>64")
	}
	if len(d.Nodes) > 4096 {
		s = append(s, "nodes>4096")
	}
	if d.StepCnt > 0 {
		s = append(s, "steps:"+d.InnerPrefixMode)
	}
	if d.HasLeafPrefixes {
		s = append(s, "tails")
	}
	if len(s) == 0 {
		return "shape:plain"
	}
	return "shape:" + strings.Join(s, "+")
}

func itoa(i int) string {
	if i == 0 {
		return "0"
	}
	neg := i < 0
	if neg {
		i = -i
	}
	b := []byte{}
	for i > 0 {
		b = append([]byte{byte('0' + i%10)}, b...)
		i /= 10
	}
	if neg {
		return "-" + string(b)
	}
	return string(b)
}

var all16 = func() [][4]int {
	r := [][4]int{}
	for m := 0; m < 16; m++ {
		r = append(r, [4]int{m & 1, m >> 1 & 1, m >> 2 & 1, m >> 3 & 1})
	}
	return r
}()

func pickOpts(r *rand.Rand, prop string, k int) [][4]int {
	if prop == "C03" || prop == "C04" {
		// Complete=true in all variants of the other flags (the flag overrides
		// the prefix options), plus the equivalent InnerPrefix+LeafPrefix ones
		pool := [][4]int{{1, 0, 0, 1}, {0, 0, 0, 1}, {1, 1, 1, 1}, {0, 1, 0, 1}, {2, 2, 2, 1}, {1, 1, 1, 0}, {0, 1, 1, 0}, {2, 1, 1, 2}}
		out := [][4]int{}
		for _, i := range r.Perm(len(pool))[:k] {
			out = append(out, pool[i])
		}
		return out
	}
	out := [][4]int{}
	for _, i := range r.Perm(16)[:k] {
		out = append(out, all16[i])
	}
	// sometimes nil pointers instead of explicit values
	for i := range out {
		if r.Intn(6) == 0 {
			for j := 0; j < 4; j++ {
				if (j == 0 && out[i][j] == 1) || (j > 0 && out[i][j] == 0) {
					out[i][j] = 2
				}
			}
		}
	}
	return out
}

var encPool = []string{"i32", "i32", "i64", "i16", "i8", "s16", "s16", "b4", "te", "none", "none", "int", "b1", "opt4"}

func pickEnc(r *rand.Rand, prop string) string {
	switch prop {
	case "C14":
		return []string{"i8", "i16", "i32", "i64"}[r.Intn(4)]
	}
	return encPool[r.Intn(len(encPool))]
}

// full-range integer values for C14
func valsFullRange(r *rand.Rand, enc string, n int) [][]byte {
	w := map[string]uint{"i8": 8, "i16": 16, "i32": 32, "i64": 64}[enc]
	vals := make([][]byte, n)
	var cur int64
	for i := 0; i < n; i++ {
		if i == 0 || r.Intn(3) != 0 {
			switch r.Intn(6) {
			case 0:
				cur = -1 << (w - 1) // min
			case 1:
				cur = 1<<(w-1) - 1 // max
			case 2:
				cur = -1
			case 3:
				cur = 0
			default:
				cur = int64(r.Uint64())
			}
		}
		vals[i] = encodeVal(enc, cur)
	}
	return vals
}

func mkVals(r *rand.Rand, prop, enc string, n int) [][]byte {
	if enc == "none" {
		return nil
	}
	if prop == "C14" && r.Intn(2) == 0 {
		return valsFullRange(r, enc, n)
	}
	if enc == "s16" && n <= 400 && r.Intn(4) == 0 {
		return valsLongStrings(r, n)
	}
	if enc == "s16" && r.Intn(2) == 0 {
		return valsSmallStrings(r, n)
	}
	base := int64(r.Intn(1000)) - 500
	switch r.Intn(6) {
	case 4:
		return valsRecurring(r, enc, n, 2+r.Intn(3), base)
	case 5:
		return valsRecurring(r, enc, n, 2+r.Intn(30), base)
	case 0:
		return valsFromPattern(enc, n, 0, base) // all distinct
	case 1:
		return valsRuns(r, enc, n, 64, base)
	default:
		return valsRuns(r, enc, n, 1+r.Intn(5), base)
	}
}

// genLookup is the generator of the lookup family: C01 C02 C03 C09 C10 C14 C18.
func genLookup(t *Tracer, m *Meta, prop, tier string, seed int64) {
	r := rand.New(rand.NewSource(seed*7919 + int64(len(prop))*31 + int64(prop[2])))
	quick := tier == "quick"

	// (1) exhaustive universes: a seed-rotated slice (quick) or a larger one
	budgetU := 1200
	if !quick {
		budgetU = 16000
	}
	for ui, u := range universes {
		strs := u.Strings()
		total := u.EachKeyList(1<<30, 1, func([]string) {}) // count only
		per := budgetU / len(universes)
		stride := total/per + 1
		off := int(seed+int64(ui)) % stride
		if off < 0 {
			off = -off
		}
		u.EachKeyList(stride, off, func(keys []string) {
			n := len(keys)
			for _, o4 := range pickOpts(r, prop, 2) {
				enc := "i32"
				if r.Intn(4) == 0 {
					enc = pickEnc(r, prop)
				}
				var vals [][]byte
				if enc != "none" {
					if o4[0] != 0 && n > 1 {
						vals = valsFromPattern(enc, n, uint64(r.Intn(1<<uint(n-1))), 0)
					} else {
						vals = valsFromPattern(enc, n, 0, 0)
					}
					if enc == "s16" && r.Intn(3) != 0 {
						vals = valsSmallStrings(r, n)
					} else if n > 2 && r.Intn(2) == 0 {
						vals = valsRecurring(r, enc, n, 2+r.Intn(2), 0)
					}
				}
				c := &TrieCase{Keys: keys, Enc: enc, Vals: vals, Opt4: o4}
				runLookupCase(t, m, r, c, lookupOpts{allQueries: strs, table: true, loaded: r.Intn(2) == 0 || prop == "C05", keysObs: true, mcheck: prop == "C05"})
			}
		})
		m.class("universe:" + u.Name)
	}

	// (2) medium tries from the shape families
	nMed := 24
	maxN := 600
	if !quick {
		nMed = 80 // x 2 option combinations; a 2000-key trie costs TLC about a minute
		maxN = 2000
	}
	for i := 0; i < nMed; i++ {
		fam := familyNames[i%len(familyNames)]
		n := 2 + r.Intn(maxN)
		if i%3 == 0 {
			n = 2 + r.Intn(60)
		}
		keys := genKeys(r, fam, n, 1+r.Intn(24))
		if len(keys) > maxN {
			keys = keys[:maxN]
		}
		enc := pickEnc(r, prop)
		for _, o4 := range pickOpts(r, prop, 2) {
			c := &TrieCase{Keys: keys, Enc: enc, Vals: mkVals(r, prop, enc, len(keys)), Opt4: o4}
			if r.Intn(10) == 0 && prop != "C03" {
				c.NoOpt = true
				c.Opt4 = [4]int{2, 2, 2, 2}
			}
			runLookupCase(t, m, r, c, lookupOpts{qlimit: 300, table: true, loaded: true, keysObs: true, mcheck: prop == "C05"})
		}
		m.class("family:" + fam)
	}
	// (2a) 257-bit nodes whose label bitmap looks like a 17-bit one: only labels among
	// end-of-key and bytes 0x00..0x0f next to bytes >= 0x3f (mimic), or -- with
	// de-duplication -- a 257-bit node that keeps the end-of-key label only because all its
	// extensions carry the value of the key that ends there (dedupbig); with enough equal
	// 17-bit nodes below for a short table
	nSpecial := 6
	if !quick {
		nSpecial = 60
	}
	for i := 0; i < nSpecial; i++ {
		var c *TrieCase
		enc := []string{"i32", "i64", "i16", "s16"}[r.Intn(4)]
		if i%2 == 0 {
			c = bigMimicCase(r, enc)
		} else {
			c = dedupBigCase(r, enc)
		}
		for _, o4 := range pickOpts(r, prop, 2) {
			if i%2 == 1 {
				o4[0] = 1 // de-duplication on
			}
			c2 := &TrieCase{Keys: c.Keys, Enc: c.Enc, Vals: c.Vals, Opt4: o4}
			runLookupCase(t, m, r, c2, lookupOpts{qlimit: 250, table: true, loaded: true, keysObs: true, mcheck: prop == "C05"})
		}
		m.class([]string{"special:bigmimic", "special:dedupbig"}[i%2])
	}
	// (2a') a FULL 257-bit node: the end-of-key label and all 256 bytes (every bit of the
	// bitmap set, the last word included), once at the root and once below a byte
	for i := 0; i < 2; i++ {
		keys := []string{}
		pre := ""
		if i == 1 {
			pre = string([]byte{byte(r.Intn(256))})
			for b := 0; b < 12; b++ {
				keys = append(keys, string([]byte{byte(b * 21)}))
			}
		}
		keys = append(keys, pre)
		for b := 0; b < 256; b++ {
			keys = append(keys, pre+string([]byte{byte(b)}))
			if b%37 == 0 {
				keys = append(keys, pre+string([]byte{byte(b), byte(r.Intn(256))}))
			}
		}
		sort.Strings(keys)
		keys = uniq(keys)
		enc := pickEnc(r, prop)
		for _, o4 := range pickOpts(r, prop, 2) {
			c := &TrieCase{Keys: keys, Enc: enc, Vals: mkVals(r, prop, enc, len(keys)), Opt4: o4}
			runLookupCase(t, m, r, c, lookupOpts{qlimit: 200, table: true, loaded: true, keysObs: true, mcheck: prop == "C05"})
		}
		m.class("special:full-257")
	}
	// (2b) boundary-seeking shapes: counts exactly on 64/128-bit word boundaries
	nB := 39
	if !quick {
		nB = 260
	}
	for i := 0; i < nB; i++ {
		ci := (i + int(seed)) % len(boundaryConds)
		fam := boundaryFamilies[r.Intn(len(boundaryFamilies))]
		if i < 8 {
			// the end of the label bitmap exactly on a word boundary: last bit set, or the
			// last inner node a short one
			ci = i % 2
			fam = []string{"comb", "twosym"}[(i/2)%2]
		}
		o4 := pickOpts(r, prop, 1)[0]
		keys := seekBoundary(r, fam, ci, o4)
		if keys == nil {
			continue
		}
		enc := pickEnc(r, prop)
		var vals [][]byte
		if enc != "none" {
			vals = valsFromPattern(enc, len(keys), 0, int64(r.Intn(100))) // distinct: keeps the sought shape
		}
		c := &TrieCase{Keys: keys, Enc: enc, Vals: vals, Opt4: o4}
		runLookupCase(t, m, r, c, lookupOpts{qlimit: 200, table: true, loaded: true, keysObs: true, mcheck: prop == "C05"})
		m.class("boundary:" + boundaryConds[ci].Name)
	}
	// (2c) every key carries the same value: with de-duplication ONE key is retained and the
	// trie degenerates to a chain of single-label nodes above one leaf
	for i := 0; i < 6; i++ {
		fam := []string{"ascii", "twosym", "prefixes", "uniform", "wide", "comb"}[i]
		keys := genKeys(r, fam, []int{2, 5, 40, 150, 12, 30}[i], 1+r.Intn(6))
		enc := pickEnc(r, prop)
		if enc == "none" {
			enc = "i32"
		}
		vals := make([][]byte, len(keys))
		for j := range vals {
			vals[j] = encodeVal(enc, 7)
		}
		for k, o4 := range pickOpts(r, prop, 2) {
			// once with de-duplication (one key retained), once without (every leaf holds
			// the same bytes)
			o4[0] = k % 2
			c := &TrieCase{Keys: keys, Enc: enc, Vals: vals, Opt4: o4}
			runLookupCase(t, m, r, c, lookupOpts{qlimit: 120, table: true, loaded: true, keysObs: true, mcheck: prop == "C05"})
		}
		m.class("special:all-values-equal")
	}
	// (2d) long single-branch runs: the step of an inner node is a 16-bit count of 4-bit
	// words, so run lengths on both sides of 2^14, 2^15 and 2^16 words (8, 16 and 32 KiB of
	// shared key bytes) in four structural contexts: two keys; the run below an inner node;
	// an ordinary long step above the long one; a 12-way byte fan-out below the run
	longRuns := []int{0x3fff, 0x4000, 0x7fff, 0x8000, 0x8001, 0xc000, 0xfffe, 0xffff}
	nLong := 6
	if !quick {
		nLong = 32
	}
	for i := 0; i < nLong; i++ {
		L := longRuns[(i+int(seed))%len(longRuns)]
		if i == 0 {
			L = 0x8000 + r.Intn(0x7000) // always one run in the upper half of the counter
		}
		fill := byte(r.Intn(256))
		common := strings.Repeat(string([]byte{fill}), L/2)
		var keys []string
		if L%2 == 0 {
			keys = []string{common + "\x12", common + "\x87", common + "\x87\x01"}
		} else {
			keys = []string{common + "\x51", common + "\x5e", common + "\x5e\xff"}
		}
		ctx := (i / 2) % 4
		switch ctx {
		case 1: // below an inner node
			keys = append(keys, string([]byte{fill ^ 0x80})+"x", string([]byte{fill ^ 0x80})+"y")
		case 2: // an ordinary long step (600 bytes) above, then the long run
			pre := strings.Repeat("\x33", 600)
			for j := range keys {
				keys[j] = pre + "\x44" + keys[j]
			}
			keys = append(keys, pre+"\x22", pre+"\x22\x00")
		case 3: // a 257-bit node below the run
			keys = nil
			for j := 0; j < 12; j++ {
				keys = append(keys, strings.Repeat(string([]byte{fill}), (L+1)/2)+string([]byte{byte(9 + j*20)}))
			}
		}
		sort.Strings(keys)
		keys = uniq(keys)
		enc := pickEnc(r, prop)
		o4 := pickOpts(r, prop, 1)[0]
		if i%3 != 2 && prop != "C03" {
			o4[1], o4[3] = 0, 0 // mostly without InnerPrefix: the step array is what is exercised
		}
		c := &TrieCase{Keys: keys, Enc: enc, Vals: mkVals(r, prop, enc, len(keys)), Opt4: o4}
		runLookupCase(t, m, r, c, lookupOpts{qlimit: 16, table: true, loaded: true, keysObs: true, mcheck: prop == "C05"})
		m.class(fmt.Sprintf("longrun:ctx%d:%s", ctx, runClass(L)))
	}
	// (3) degenerate: empty and single-key tries in every option combination
	for _, o4 := range all16 {
		for _, keys := range [][]string{{}, {""}, {"a"}, {"\x00\xff\x80"}} {
			enc := pickEnc(r, prop)
			c := &TrieCase{Keys: keys, Enc: enc, Vals: mkVals(r, prop, enc, len(keys)), Opt4: o4}
			runLookupCase(t, m, r, c, lookupOpts{qlimit: 40, table: true, loaded: true, keysObs: true, mcheck: prop == "C05"})
		}
	}
	// (3a) queries of tens of thousands of bytes (beyond 2^16 bytes and 2^19 bits) on a small
	// and on a medium trie: a stored key followed by 70000 bytes, 66000 zero bytes, 66000 0xff
	for i := 0; i < 2; i++ {
		keys := genKeys(r, []string{"prefixes", "ascii"}[i], []int{6, 120}[i], 6)
		enc := pickEnc(r, prop)
		o4 := pickOpts(r, prop, 1)[0]
		c := &TrieCase{Keys: keys, Enc: enc, Vals: mkVals(r, prop, enc, len(keys)), Opt4: o4}
		huge := []string{keys[len(keys)/2] + randBytes(r, 70000, nil), string(make([]byte, 66000)), strings.Repeat("\xff", 66000),
			keys[len(keys)-1] + strings.Repeat("\x00", 65536)}
		runLookupCase(t, m, r, c, lookupOpts{qlimit: 20, table: true, loaded: i == 1, keysObs: true, extraQ: huge})
		m.class("huge-queries")
	}
}

// bigMimicCase: the root is a 257-bit node whose children are a few bytes 0x00..0x0f and
// >= 10 bytes >= 0x40; below the high bytes many 17-bit nodes branch on exactly the
// half-bytes that the low root bytes name, so that this bitmap is popular (short table)
// and equals the first word of the root's bitmap.
func bigMimicCase(r *rand.Rand, enc string) *TrieCase {
	nS := 1 + r.Intn(3)
	S := r.Perm(15)[:nS] // half-byte values; as root BYTES they are 0x00..0x0e
	keys := []string{}
	for _, s := range S {
		keys = append(keys, string([]byte{byte(s)})+randBytes(r, r.Intn(2), []byte{0x41, 0x42}))
	}
	nHigh := 11 + r.Intn(20)
	for h := 0; h < nHigh; h++ {
		hb := byte(0x40 + h*3)
		for _, s := range S {
			// second byte: high half-byte in S -> the node below hb branches on S
			keys = append(keys, string([]byte{hb, byte(s)<<4 | byte(r.Intn(16))}))
			if r.Intn(3) == 0 {
				keys = append(keys, string([]byte{hb, byte(s)<<4 | byte(r.Intn(16)), byte(r.Intn(256))}))
			}
		}
	}
	keys = uniq(keys)
	c := &TrieCase{Keys: keys, Enc: enc}
	c.Vals = valsFromPattern(enc, len(keys), 0, int64(r.Intn(100)))
	return c
}

// dedupBigCase: groups K_g, K_g+b1, ..., K_g+bm with ONE value per group: with
// de-duplication only K_g is retained, the node at K_g sees m distinct next bytes (257-bit
// while the creator's latch is open) but keeps the end-of-key label only.  One small group
// closes the latch; the later groups give equal 17-bit nodes.
func dedupBigCase(r *rand.Rand, enc string) *TrieCase {
	nG := 14 + r.Intn(30)
	small := 2 + r.Intn(5)
	mixed := r.Intn(2) == 0
	if mixed {
		small = nG - 1 // the latch stays open for all groups but the last
	}
	keys := []string{}
	groupOf := []int{}
	for g := 0; g < nG; g++ {
		K := string([]byte{byte(0x20 + g*4)}) + randBytes(r, r.Intn(2), []byte{0x61})
		m := 11 + r.Intn(8)
		if g == small {
			m = 2 + r.Intn(4)
		}
		keys = append(keys, K)
		groupOf = append(groupOf, g)
		// some groups (never the first two) keep a value of their own per extension: their
		// node keeps more than 10 labels and stays a full 257-bit node BEHIND the thinned ones
		full := mixed && g >= 2 && g != small && r.Intn(3) == 0
		for j, b := range r.Perm(200)[:m] {
			keys = append(keys, K+string([]byte{byte(b + 20)}))
			if full {
				groupOf = append(groupOf, 1000+g*64+j)
			} else {
				groupOf = append(groupOf, g)
			}
		}
	}
	// sort keys together with their groups
	idx := make([]int, len(keys))
	for i := range idx {
		idx[i] = i
	}
	sort.Slice(idx, func(a, b int) bool { return keys[idx[a]] < keys[idx[b]] })
	ks, vs := []string{}, [][]byte{}
	for _, i := range idx {
		if len(ks) > 0 && ks[len(ks)-1] == keys[i] {
			continue
		}
		ks = append(ks, keys[i])
		vs = append(vs, encodeVal(enc, int64(groupOf[i]+1)))
	}
	return &TrieCase{Keys: ks, Enc: enc, Vals: vs}
}

// specialShapes: the shapes that seeded changes showed no random family reaches, for the
// generators of every trie-based property (a change in the builder or the reader is reached
// through lookups, scans, renderings, the index, the 16 modes alike): a 257-bit node
// mimicking a popular 17-bit bitmap; 257-bit nodes thinned by de-duplication, some kept
// full; a full 257-bit node at the root and below a byte; counts on word boundaries; a long
// single-branch run in the upper half of the step counter; long leaf tails.
// Values are distinct unless the shape needs them otherwise (dedupbig).
type namedCase struct {
	Name string
	C    *TrieCase
}

func fullFanKeys(r *rand.Rand, below bool) []string {
	keys := []string{}
	pre := ""
	if below {
		pre = string([]byte{byte(r.Intn(256))})
		for b := 0; b < 12; b++ {
			keys = append(keys, string([]byte{byte(b * 21)}))
		}
	}
	keys = append(keys, pre)
	for b := 0; b < 256; b++ {
		keys = append(keys, pre+string([]byte{byte(b)}))
		if b%37 == 0 {
			keys = append(keys, pre+string([]byte{byte(b), byte(r.Intn(256))}))
		}
	}
	sort.Strings(keys)
	return uniq(keys)
}

func specialShapes(r *rand.Rand, enc string, o4 [4]int, nBoundary int, seed int64) []namedCase {
	out := []namedCase{}
	distinct := func(keys []string) [][]byte {
		if enc == "none" {
			return nil
		}
		return valsFromPattern(enc, len(keys), 0, int64(r.Intn(100)))
	}
	c := bigMimicCase(r, enc)
	if enc == "none" {
		c.Vals = nil
	}
	out = append(out, namedCase{"special:bigmimic", c})
	if enc != "none" {
		out = append(out, namedCase{"special:dedupbig", dedupBigCase(r, enc)})
	}
	for i := 0; i < 2; i++ {
		keys := fullFanKeys(r, i == 1)
		out = append(out, namedCase{"special:full-257", &TrieCase{Keys: keys, Enc: enc, Vals: distinct(keys)}})
	}
	for i := 0; i < nBoundary; i++ {
		fam := boundaryFamilies[r.Intn(len(boundaryFamilies))]
		if keys := seekBoundary(r, fam, i+int(seed), o4); keys != nil {
			out = append(out, namedCase{"special:boundary", &TrieCase{Keys: keys, Enc: enc, Vals: distinct(keys)}})
		}
	}
	L := []int{0x8000, 0x8001, 0xc000, 0xfffe}[r.Intn(4)]
	common := strings.Repeat(string([]byte{byte(r.Intn(256))}), L/2)
	keys := []string{"\x00", common + "\x12", common + "\x87", common + "\x87\x01"}
	sort.Strings(keys)
	keys = uniq(keys)
	out = append(out, namedCase{"special:longrun", &TrieCase{Keys: keys, Enc: enc, Vals: distinct(keys)}})
	lt := genKeys(r, "longtail", 20, 0)
	out = append(out, namedCase{"special:longtail", &TrieCase{Keys: lt, Enc: enc, Vals: distinct(lt)}})
	return out
}
