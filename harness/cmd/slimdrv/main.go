// slimdrv drives the real openacid/slim library and records ndjson traces that
// the TLA+ trace specifications under /verif/spec validate.
package main

import (
	"encoding/json"
	"flag"
	"fmt"
	"io/ioutil"
	"os"
	"path/filepath"
)

func main() {
	if len(os.Args) < 2 {
		fmt.Fprintln(os.Stderr, "usage: slimdrv gen|replay ...")
		os.Exit(2)
	}
	switch os.Args[1] {
	case "gen":
		fs := flag.NewFlagSet("gen", flag.ExitOnError)
		prop := fs.String("prop", "C01", "property id")
		tier := fs.String("tier", "quick", "quick|thorough")
		seed := fs.Int64("seed", 1, "seed")
		out := fs.String("out", ".", "output directory")
		chunks := fs.Int("chunks", 8, "number of trace chunks")
		fs.Parse(os.Args[2:])
		t := NewTracer(*out, *chunks)
		m := newMeta("")
		switch *prop {
		case "C01", "C02", "C03", "C09", "C10", "C14", "C18":
			m.Rule = "one case = one NewSlimTrie input (key list, encoded values, option pointers); distinct_nontrivial = distinct cases (SHA-1 of the input) with at least two keys, i.e. at least one inner node"
			genLookup(t, m, *prop, *tier, *seed)
		case "C08":
			m.Rule = "one case = one NewSlimTrie call (key SEQUENCE, values, options) followed, if a trie is returned for an ascending list, by lookups of all its keys; distinct_nontrivial = distinct inputs with at least two keys"
			genBuild(t, m, *tier, *seed)
		case "C19":
			m.Rule = "one case = one trie rendered with String() fresh and after a marshal round trip; distinct_nontrivial = distinct tries with at least two keys; classes_reached lists the node kinds (257-bit, short<k>) the renderings contained"
			genRender(t, m, *tier, *seed)
		case "C13":
			m.Rule = "one case = one key/value list built in all 16 option combinations, the Get answers of the 16 tries for one query set in one event; distinct_nontrivial = distinct lists with at least two keys"
			genModes(t, m, *tier, *seed)
		case "C04":
			m.Rule = "one case = one trie (key list, encoded values, options) with its scan calls; distinct_nontrivial = distinct tries with at least two keys; every scan call (API, start, inclusivity, end, stop point, withValue) is one evaluation"
			genScan(t, m, *tier, *seed)
		default:
			fmt.Fprintln(os.Stderr, "unknown property", *prop)
			os.Exit(2)
		}
		t.Close()
		m.Events = t.Events
		b, _ := json.MarshalIndent(m, "", " ")
		ioutil.WriteFile(filepath.Join(*out, "meta.json"), b, 0644)
	case "replay":
		fs := flag.NewFlagSet("replay", flag.ExitOnError)
		in := fs.String("in", "", "replay file")
		out := fs.String("out", ".", "output directory")
		fs.Parse(os.Args[2:])
		replay(*in, *out)
	default:
		fmt.Fprintln(os.Stderr, "unknown command", os.Args[1])
		os.Exit(2)
	}
}
