package main

import (
	"fmt"
	"math/rand"

	"github.com/openacid/slim/trie"
)

// ---- scan observations (C04) --------------------------------------------------

type scanReq struct {
	API       string // "from" | "fromto" | "iter"
	Start     string
	Incl      bool
	HasEnd    bool
	End       string
	InclEnd   bool
	WithValue bool
	Stop      int // callback returns false on its Stop-th call; -1 never
	Extra     int // NewIter: extra next() calls after exhaustion
}

func bytesOrNil(b []byte) []int {
	if b == nil {
		return nilV
	}
	return bints(b)
}

// runScan performs one scan call on the real trie; every yielded slice is copied
// at once (the library reuses its buffer).
func runScan(st *trie.SlimTrie, rq scanReq) Ev {
	yk := [][]int{}
	yv := [][]int{}
	extras := 0
	pan := ""
	func() {
		defer func() {
			if r := recover(); r != nil {
				pan = fmt.Sprint(r)
			}
		}()
		calls := 0
		fn := func(k, v []byte) bool {
			yk = append(yk, bints(k))
			yv = append(yv, bytesOrNil(v))
			calls++
			return !(rq.Stop >= 0 && calls >= rq.Stop)
		}
		switch rq.API {
		case "from":
			st.ScanFrom(rq.Start, rq.Incl, rq.WithValue, fn)
		case "fromto":
			st.ScanFromTo(rq.Start, rq.Incl, rq.End, rq.InclEnd, rq.WithValue, fn)
		case "iter":
			nxt := st.NewIter(rq.Start, rq.Incl, rq.WithValue)
			for {
				k, v := nxt()
				if k == nil {
					if v != nil {
						extras++
					}
					break
				}
				if !fn(k, v) {
					break
				}
			}
			if !(rq.Stop >= 0 && len(yk) >= rq.Stop) {
				// exhausted: every later call must report exhaustion again
				for i := 0; i < rq.Extra; i++ {
					k, v := nxt()
					if k != nil || v != nil {
						extras++
					}
				}
			}
		}
	}()
	return Ev{"ev": "scan", "api": rq.API, "start": ints(rq.Start), "incl": b2i(rq.Incl), "hasend": b2i(rq.HasEnd),
		"end": ints(rq.End), "inclend": b2i(rq.InclEnd), "withvalue": b2i(rq.WithValue), "stop": rq.Stop,
		"extra": rq.Extra, "yk": yk, "yv": yv, "extras": extras, "pan": pan}
}

func scanReqFromEv(e map[string]interface{}) scanReq {
	gi := func(k string) int { return int(e[k].(float64)) }
	return scanReq{API: e["api"].(string), Start: fromInts(toIntSlice(e["start"])), Incl: gi("incl") == 1,
		HasEnd: gi("hasend") == 1, End: fromInts(toIntSlice(e["end"])), InclEnd: gi("inclend") == 1,
		WithValue: gi("withvalue") == 1, Stop: gi("stop"), Extra: gi("extra")}
}

// ---- independent iterators on one trie ----------------------------------------

type iterSet struct {
	its map[int]trie.NextRaw
}

func iterNewEv(st *trie.SlimTrie, is *iterSet, id int, start string, incl, wv bool) Ev {
	pan := ""
	func() {
		defer func() {
			if r := recover(); r != nil {
				pan = fmt.Sprint(r)
			}
		}()
		is.its[id] = st.NewIter(start, incl, wv)
	}()
	return Ev{"ev": "iternew", "id": id, "start": ints(start), "incl": b2i(incl), "withvalue": b2i(wv), "pan": pan}
}

func iterNextEv(is *iterSet, id int) Ev {
	pan := ""
	k, v := nilV, nilV
	func() {
		defer func() {
			if r := recover(); r != nil {
				pan = fmt.Sprint(r)
			}
		}()
		if nxt, ok := is.its[id]; ok {
			kk, vv := nxt()
			k, v = bytesOrNil(kk), bytesOrNil(vv)
		} else {
			pan = "no such iterator"
		}
	}()
	return Ev{"ev": "iternext", "id": id, "key": k, "val": v, "pan": pan}
}

// ---- generator -----------------------------------------------------------------

func scanPlan(r *rand.Rand, c *TrieCase, starts []string, full bool) []scanReq {
	reqs := []scanReq{}
	n := len(c.Keys)
	for _, s := range starts {
		for _, incl := range []bool{true, false} {
			wv := r.Intn(2) == 0
			rq := scanReq{API: []string{"from", "iter", "fromto"}[r.Intn(3)], Start: s, Incl: incl, WithValue: wv, Stop: -1, Extra: r.Intn(3)}
			if !full && n > 40 {
				// bound the output on larger tries
				rq.Stop = 1 + r.Intn(40)
			} else if r.Intn(4) == 0 {
				rq.Stop = r.Intn(n + 2) // callback stop points, incl. 0 -> stops at the first call
				if rq.Stop == 0 {
					rq.Stop = 1
				}
			}
			if rq.API == "fromto" {
				rq.HasEnd = true
				rq.End = starts[r.Intn(len(starts))]
				if r.Intn(3) == 0 && n > 0 {
					rq.End = c.Keys[r.Intn(n)]
				}
				rq.InclEnd = r.Intn(2) == 0
			}
			reqs = append(reqs, rq)
		}
	}
	// one complete scan with values, one without
	reqs = append(reqs, scanReq{API: "from", Start: "", Incl: true, WithValue: true, Stop: -1},
		scanReq{API: "iter", Start: "", Incl: true, WithValue: false, Stop: -1, Extra: 3})
	return reqs
}

func runScanCase(t *Tracer, m *Meta, r *rand.Rand, c *TrieCase, starts []string, full, loaded bool, nIterOps int) {
	t.NextCase()
	m.countCase(c)
	st, ec, pan := c.Build()
	t.Emit(c.NewEv(ec, pan))
	if st == nil {
		m.class("new:" + ec + pan2class(pan))
		return
	}
	if loaded {
		st2, ec, pan := Reload(c, st)
		t.Emit(Ev{"ev": "load", "err": ec, "pan": pan})
		if st2 == nil {
			return
		}
		st = st2
		m.class("scan:loaded")
	} else {
		m.class("scan:fresh")
	}
	for _, rq := range scanPlan(r, c, starts, full) {
		t.Emit(runScan(st, rq))
		m.Calls++
		m.class("scan:" + rq.API)
	}
	// interleaved independent iterators, with lookups in between
	if nIterOps > 0 {
		is := &iterSet{its: map[int]trie.NextRaw{}}
		k := 2 + r.Intn(2)
		for id := 1; id <= k; id++ {
			t.Emit(iterNewEv(st, is, id, starts[r.Intn(len(starts))], r.Intn(2) == 0, r.Intn(2) == 0))
		}
		for i := 0; i < nIterOps; i++ {
			if r.Intn(5) == 0 && len(c.Keys) > 0 {
				st.Get(c.Keys[r.Intn(len(c.Keys))])
				st.Search(starts[r.Intn(len(starts))])
			}
			t.Emit(iterNextEv(is, 1+r.Intn(k)))
			m.Calls++
		}
		m.class("scan:interleaved-iterators")
	}
	if len(m.Samples) < 3 && len(c.Keys) >= 2 && len(c.Keys) <= 6 {
		m.Samples = append(m.Samples, Ev{"keys": intsList(c.Keys), "enc": c.Enc, "opt": c.Opt4, "scans": 2*len(starts) + 2})
	}
}

// refusal: every option combination, fresh and loaded, every scan API
func runRefusalCase(t *Tracer, m *Meta, r *rand.Rand, c *TrieCase, loaded bool) {
	t.NextCase()
	m.countCase(c)
	st, ec, pan := c.Build()
	t.Emit(c.NewEv(ec, pan))
	if st == nil {
		return
	}
	if loaded {
		st2, ec, pan := Reload(c, st)
		t.Emit(Ev{"ev": "load", "err": ec, "pan": pan})
		if st2 == nil {
			return
		}
		st = st2
	}
	starts := []string{""}
	if len(c.Keys) > 0 {
		starts = append(starts, c.Keys[r.Intn(len(c.Keys))], c.Keys[len(c.Keys)-1]+"\xff")
	}
	for _, s := range starts {
		for _, api := range []string{"from", "fromto", "iter"} {
			rq := scanReq{API: api, Start: s, Incl: true, WithValue: r.Intn(2) == 0, Stop: -1, Extra: 1}
			if api == "fromto" {
				rq.HasEnd, rq.End, rq.InclEnd = true, "\xff\xff\xff\xff", true
			}
			t.Emit(runScan(st, rq))
			m.Calls++
		}
	}
	m.class(fmt.Sprintf("refusal:innp=%d,leafp=%d,cpl=%d", c.Opt4[1], c.Opt4[2], c.Opt4[3]))
}

func genScan(t *Tracer, m *Meta, tier string, seed int64) {
	r := rand.New(rand.NewSource(seed*104729 + 4))
	quick := tier == "quick"
	encs := []string{"i32", "s16", "none", "i64", "b4", "i8", "te", "opt4"}
	complete := [][4]int{{1, 0, 0, 1}, {0, 0, 0, 1}, {2, 2, 2, 1}, {1, 1, 1, 0}, {0, 1, 1, 2}, {1, 1, 1, 1}}
	// (1) universes: all starts x both inclusivities
	budgetU := 500
	if !quick {
		budgetU = 12000
	}
	for ui, u := range universes {
		strs := u.Strings()
		total := u.EachKeyList(1<<30, 1, func([]string) {})
		stride := total/(budgetU/len(universes)) + 1
		off := int(seed+int64(ui)*3) % stride
		u.EachKeyList(stride, off, func(keys []string) {
			n := len(keys)
			enc := encs[r.Intn(len(encs))]
			o4 := complete[r.Intn(len(complete))]
			var vals [][]byte
			if enc != "none" {
				pat := uint64(0)
				if o4[0] != 0 && n > 1 {
					pat = uint64(r.Intn(1 << uint(n-1)))
				}
				vals = valsFromPattern(enc, n, pat, int64(r.Intn(50)))
				if n > 2 && r.Intn(3) == 0 {
					vals = valsRecurring(r, enc, n, 2+r.Intn(2), 0)
				}
			}
			c := &TrieCase{Keys: keys, Enc: enc, Vals: vals, Opt4: o4}
			runScanCase(t, m, r, c, strs, true, r.Intn(2) == 0, 8)
		})
		m.class("universe:" + u.Name)
	}
	// (2) medium tries
	nMed, maxN := 20, 400
	if !quick {
		nMed, maxN = 150, 2000
	}
	for i := 0; i < nMed; i++ {
		fam := familyNames[i%len(familyNames)]
		n := 2 + r.Intn(maxN)
		if i%3 == 0 {
			n = 2 + r.Intn(40)
		}
		keys := genKeys(r, fam, n, 1+r.Intn(20))
		if len(keys) > maxN {
			keys = keys[:maxN]
		}
		enc := encs[r.Intn(len(encs))]
		o4 := complete[r.Intn(len(complete))]
		c := &TrieCase{Keys: keys, Enc: enc, Vals: mkVals(r, "C04", enc, len(keys)), Opt4: o4}
		starts := querySet(r, keys, 24)
		runScanCase(t, m, r, c, starts, len(keys) <= 60, i%2 == 0, 30)
		m.class("family:" + fam)
	}
	// (2b) boundary-seeking shapes
	nB := 39
	if !quick {
		nB = 200
	}
	for i := 0; i < nB; i++ {
		ci := (i + int(seed)) % len(boundaryConds)
		fam := boundaryFamilies[r.Intn(len(boundaryFamilies))]
		if i < 8 {
			// the end of the label bitmap exactly on a word boundary, last bit set
			ci = 0
			fam = []string{"comb", "twosym"}[i%2]
		}
		o4 := complete[r.Intn(len(complete))]
		keys := seekBoundary(r, fam, ci, o4)
		if keys == nil {
			continue
		}
		enc := encs[r.Intn(len(encs))]
		var vals [][]byte
		if enc != "none" {
			vals = valsFromPattern(enc, len(keys), 0, int64(r.Intn(100)))
		}
		c := &TrieCase{Keys: keys, Enc: enc, Vals: vals, Opt4: o4}
		starts := querySet(r, keys, 16)
		// the last keys are served by the last inner nodes and the last words
		starts = append(starts, keys[len(keys)-1], keys[len(keys)-2], keys[len(keys)-1]+"\x00", keys[len(keys)-1][:len(keys[len(keys)-1])/2])
		runScanCase(t, m, r, c, starts, false, i%2 == 0, 12)
		m.class("boundary:" + boundaryConds[ci].Name)
	}
	// (3) degenerate complete tries
	for _, keys := range [][]string{{}, {""}, {"a"}, {"\x00\xff\x80"}, {"", "\x00"}} {
		for _, enc := range []string{"i32", "s16", "none"} {
			c := &TrieCase{Keys: keys, Enc: enc, Vals: mkVals(r, "C04", enc, len(keys)), Opt4: [4]int{1, 0, 0, 1}}
			runScanCase(t, m, r, c, []string{"", "a", "\x00", "\xff", "\x00\xff\x80", "b"}, true, r.Intn(2) == 0, 6)
		}
	}
	// (4) refusal clause: all 16 combinations x fresh/loaded x key sets
	ksets := [][]string{{"abc", "abd", "b", "bcdef", "bcdeg"}, {"a"}, {}, genKeys(r, "uniform", 30, 6), genKeys(r, "twosym", 20, 5)}
	for _, o4 := range all16 {
		for _, keys := range ksets {
			for _, loaded := range []bool{false, true} {
				enc := encs[r.Intn(3)]
				c := &TrieCase{Keys: keys, Enc: enc, Vals: mkVals(r, "C04", enc, len(keys)), Opt4: o4}
				runRefusalCase(t, m, r, c, loaded)
			}
		}
	}
}
