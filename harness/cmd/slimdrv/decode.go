package main

import (
	"fmt"
	"math/bits"

	"github.com/golang/protobuf/proto"
	"github.com/openacid/slim/trie"
)

// The harness's OWN reader of the serialized form: sequential decoding of the
// exported protobuf message, independent of the rank/select arithmetic of
// slimtrie_query.go.  It is the projection of the real state onto the node table
// of the specification.

type DNode struct {
	Inner   bool
	Big     bool
	Short   bool
	Labels  []int // label codes: 0 empty, 1+nibble / 1+byte
	HasPfx  bool
	Step    int    // stored step in half-bytes (steps-only mode), else -1
	Pfx     []byte // stored bit-string incl. trailing mask byte (prefix mode)
	HasTail bool
	Tail    []byte
	Val     []int // leaf value bytes, or NilV
	TopBit  bool  // inner: the last stored bit of the node's bitmap is set
}

type Decoded struct {
	Nodes                                        []DNode
	ShortSize                                    int
	ShortTable                                   []int
	BigCnt                                       int
	InnerCnt                                     int
	LeafCnt                                      int
	ShortCnt                                     int
	StepCnt                                      int
	HasInnerPrefixes, HasLeafPrefixes, HasLeaves bool
	InnerPrefixMode                              string // "steps" | "prefix" | "none"
}

func bmGet(words []uint64, i int) bool {
	if i>>6 >= len(words) {
		return false
	}
	return words[i>>6]>>(uint(i)&63)&1 == 1
}

func bmOnes(words []uint64) []int {
	r := []int{}
	for wi, w := range words {
		for ; w != 0; w &= w - 1 {
			r = append(r, wi*64+bits.TrailingZeros64(w))
		}
	}
	return r
}

// vlenElts decodes a VLenArray into its n slots ([]byte(nil) = absent).
func vlenElts(va *trie.VLenArray, n int) ([][]byte, error) {
	out := make([][]byte, n)
	if va == nil || va.PresenceBM == nil {
		return out, nil
	}
	var pos []int
	if va.PositionBM != nil {
		pos = bmOnes(va.PositionBM.Words)
	}
	ith := 0
	for i := 0; i < n; i++ {
		if !bmGet(va.PresenceBM.Words, i) {
			continue
		}
		var from, to int
		if va.PositionBM != nil {
			if ith+1 >= len(pos) {
				return nil, fmt.Errorf("position bitmap too short: elt %d of %d positions", ith, len(pos))
			}
			from, to = pos[ith], pos[ith+1]
		} else {
			from, to = ith*int(va.FixedSize), (ith+1)*int(va.FixedSize)
		}
		if to > len(va.Bytes) || from > to {
			return nil, fmt.Errorf("element %d out of bytes: [%d,%d) of %d", ith, from, to, len(va.Bytes))
		}
		out[i] = va.Bytes[from:to]
		if out[i] == nil {
			out[i] = []byte{}
		}
		ith++
	}
	return out, nil
}

func ParseSlim(stream []byte) (*trie.Slim, error) {
	if len(stream) < 32 {
		return nil, fmt.Errorf("stream shorter than a header")
	}
	sl := &trie.Slim{}
	if err := proto.Unmarshal(stream[32:], sl); err != nil {
		return nil, err
	}
	return sl, nil
}

// Decode turns the message into the node table.
func Decode(sl *trie.Slim) (*Decoded, error) {
	d := &Decoded{ShortSize: int(sl.ShortSize), BigCnt: int(sl.BigInnerCnt), InnerPrefixMode: "none"}
	for _, x := range sl.ShortTable {
		d.ShortTable = append(d.ShortTable, int(x))
	}
	if sl.NodeTypeBM == nil {
		return d, nil
	}
	var innerW []uint64
	if sl.Inners != nil {
		innerW = sl.Inners.Words
	}
	// pass 1: label bitmaps of the inner nodes, sequentially
	type inn struct {
		big, short bool
		labels     []int
		top        bool
	}
	inners := []inn{}
	total := 1
	off := 0
	// the number of inner nodes is not stored: walk node ids while they exist
	for id := 0; id < total; id++ {
		if !bmGet(sl.NodeTypeBM.Words, id) {
			continue
		}
		i := len(inners)
		n := inn{}
		size := 17
		if i < int(sl.BigInnerCnt) {
			n.big = true
			size = 257
		} else if sl.ShortBM != nil && bmGet(sl.ShortBM.Words, i) {
			n.short = true
			size = int(sl.ShortSize)
		}
		var bm []bool
		if n.short {
			v := 0
			for b := 0; b < size; b++ {
				if bmGet(innerW, off+b) {
					v |= 1 << uint(b)
				}
			}
			if v >= len(sl.ShortTable) {
				return nil, fmt.Errorf("short bitmap %d outside table of %d", v, len(sl.ShortTable))
			}
			full := sl.ShortTable[v]
			// rank is computed on the stored short bitmap: popcounts must agree
			if bits.OnesCount32(full) != bits.OnesCount(uint(v)) {
				return nil, fmt.Errorf("short %d and table entry %x differ in popcount", v, full)
			}
			bm = make([]bool, 17)
			for b := 0; b < 17; b++ {
				bm[b] = full>>uint(b)&1 == 1
			}
		} else {
			bm = make([]bool, size)
			for b := 0; b < size; b++ {
				bm[b] = bmGet(innerW, off+b)
			}
		}
		n.top = size > 0 && bmGet(innerW, off+size-1)
		off += size
		for b, set := range bm {
			if set {
				n.labels = append(n.labels, b)
			}
		}
		if len(n.labels) == 0 {
			return nil, fmt.Errorf("inner node %d (id %d) without labels", i, id)
		}
		total += len(n.labels)
		inners = append(inners, n)
	}
	d.InnerCnt = len(inners)
	d.LeafCnt = total - len(inners)

	// payloads
	var ipfx [][]byte
	if sl.InnerPrefixes != nil {
		d.HasInnerPrefixes = true
		var err error
		ipfx, err = vlenElts(sl.InnerPrefixes, len(inners))
		if err != nil {
			return nil, fmt.Errorf("inner prefixes: %v", err)
		}
		if sl.InnerPrefixes.PositionBM != nil {
			d.InnerPrefixMode = "prefix"
		} else {
			d.InnerPrefixMode = "steps"
		}
	} else {
		ipfx = make([][]byte, len(inners))
	}
	var ltail [][]byte
	if sl.LeafPrefixes != nil {
		d.HasLeafPrefixes = true
		var err error
		ltail, err = vlenElts(sl.LeafPrefixes, d.LeafCnt)
		if err != nil {
			return nil, fmt.Errorf("leaf prefixes: %v", err)
		}
	} else {
		ltail = make([][]byte, d.LeafCnt)
	}
	var lvals [][]byte
	if sl.Leaves != nil {
		d.HasLeaves = true
		var err error
		lvals, err = vlenElts(sl.Leaves, d.LeafCnt)
		if err != nil {
			return nil, fmt.Errorf("leaves: %v", err)
		}
	}

	ii, li := 0, 0
	for id := 0; id < total; id++ {
		if bmGet(sl.NodeTypeBM.Words, id) {
			in := inners[ii]
			n := DNode{Inner: true, Big: in.big, Short: in.short, Labels: in.labels, Step: -1, TopBit: in.top}
			if ipfx[ii] != nil {
				n.HasPfx = true
				d.StepCnt++
				if d.InnerPrefixMode == "steps" {
					n.Step = int(ipfx[ii][0])<<8 | int(ipfx[ii][1])
				} else {
					n.Pfx = ipfx[ii]
				}
			}
			if in.short {
				d.ShortCnt++
			}
			d.Nodes = append(d.Nodes, n)
			ii++
		} else {
			n := DNode{Val: nilV}
			if ltail[li] != nil {
				n.HasTail = true
				n.Tail = ltail[li]
			}
			if lvals != nil {
				if lvals[li] != nil {
					n.Val = bints(lvals[li])
				} else {
					n.Val = []int{} // present array, empty element
				}
			}
			d.Nodes = append(d.Nodes, n)
			li++
		}
	}
	return d, nil
}

// TableEv is the trace event carrying the decoded node table (Layer M).
func TableEv(d *Decoded) Ev {
	nodes := make([]interface{}, len(d.Nodes))
	for i, n := range d.Nodes {
		if n.Inner {
			nodes[i] = Ev{"t": 1, "big": b2i(n.Big), "short": b2i(n.Short), "labels": n.Labels,
				"haspfx": b2i(n.HasPfx), "step": n.Step, "pfx": bints(n.Pfx)}
		} else {
			nodes[i] = Ev{"t": 0, "hastail": b2i(n.HasTail), "tail": bints(n.Tail), "val": n.Val}
		}
	}
	tb := d.ShortTable
	if tb == nil {
		tb = []int{}
	}
	return Ev{"ev": "table", "nodes": nodes, "shortsize": d.ShortSize, "shorttable": tb, "bigcnt": d.BigCnt,
		"ipmode": d.InnerPrefixMode, "haslp": b2i(d.HasLeafPrefixes), "haslv": b2i(d.HasLeaves)}
}

// StatEv logs Stat().
func StatEv(st *trie.SlimTrie) (e Ev) {
	e = Ev{"ev": "stat", "pan": "", "levels": [][]int{}, "keycnt": -1, "nodecnt": -1, "levelcnt": -1}
	defer func() {
		if r := recover(); r != nil {
			e["pan"] = fmt.Sprint(r)
		}
	}()
	var s *trie.Stat
	watched(func() { s = st.Stat() })
	lv := [][]int{}
	for _, l := range s.Levels {
		lv = append(lv, []int{int(l.Total), int(l.Inner), int(l.Leaf)})
	}
	e["levels"] = lv
	e["keycnt"] = int(s.KeyCnt)
	e["nodecnt"] = int(s.NodeCnt)
	e["levelcnt"] = int(s.LevelCnt)
	return
}

// ---- Level B: the message field by field (for SlimEncode) --------------------------------

func bmEv(b *trie.Bitmap) Ev {
	if b == nil {
		return Ev{"bits": []int{}, "nwords": -1, "rank": []int{}, "sel": []int{}}
	}
	rank, sel := []int{}, []int{}
	for _, x := range b.RankIndex {
		rank = append(rank, int(x))
	}
	for _, x := range b.SelectIndex {
		sel = append(sel, int(x))
	}
	return Ev{"bits": bmOnes(b.Words), "nwords": len(b.Words), "rank": rank, "sel": sel}
}

func vlenEv(v *trie.VLenArray) Ev {
	if v == nil {
		return Ev{"present": false}
	}
	return Ev{"present": true, "n": int(v.N), "eltcnt": int(v.EltCnt), "presence": bmEv(v.PresenceBM), "position": bmEv(v.PositionBM),
		"fixed": int(v.FixedSize), "bytes": bints(v.Bytes)}
}

// ProtoEv logs the stored form itself.
//
// wire is the Marshal() output the message was parsed from (Level C, SlimWire); it
// is logged for streams up to 2 KiB and left empty otherwise.
func ProtoEv(sl *trie.Slim, wire []byte) Ev {
	w := []int{}
	if len(wire) <= 2048 {
		w = bints(wire)
	}
	tb := []int{}
	for _, x := range sl.ShortTable {
		tb = append(tb, int(x))
	}
	return Ev{"ev": "proto", "empty": b2i(sl.NodeTypeBM == nil), "bigcnt": int(sl.BigInnerCnt), "shortsize": int(sl.ShortSize), "shorttable": tb,
		"nodetype": bmEv(sl.NodeTypeBM), "inners": bmEv(sl.Inners), "shortbm": bmEv(sl.ShortBM),
		"ip": vlenEv(sl.InnerPrefixes), "lp": vlenEv(sl.LeafPrefixes), "leaves": vlenEv(sl.Leaves),
		"unknown": len(sl.XXX_unrecognized), "wire": w}
}
