package main

import (
	"encoding/binary"
	"fmt"
	"math/big"
	"math/rand"
	"reflect"
	"sort"
	"strings"

	"github.com/golang/protobuf/proto"
	"github.com/openacid/slim/array"
	"github.com/openacid/slim/encode"
	"github.com/openacid/testkeys"
)

// ============================ C15: value encoders ================================

// negMag: sign and little-endian base-256 magnitude padded to w bytes, computed
// with math/big (independent of encoding/binary's layout logic).
func negMag(v *big.Int, w int) (int, []int) {
	neg := 0
	if v.Sign() < 0 {
		neg = 1
	}
	be := new(big.Int).Abs(v).Bytes()
	mag := make([]int, w)
	for i := 0; i < len(be) && i < w; i++ {
		mag[i] = int(be[len(be)-1-i])
	}
	return neg, mag
}

func bigOf(x interface{}) *big.Int {
	switch v := x.(type) {
	case int8:
		return big.NewInt(int64(v))
	case int16:
		return big.NewInt(int64(v))
	case int32:
		return big.NewInt(int64(v))
	case int64:
		return big.NewInt(v)
	case int:
		return big.NewInt(int64(v))
	case uint8:
		return new(big.Int).SetUint64(uint64(v))
	case uint16:
		return new(big.Int).SetUint64(uint64(v))
	case uint32:
		return new(big.Int).SetUint64(uint64(v))
	case uint64:
		return new(big.Int).SetUint64(v)
	}
	return nil
}

type intEnc struct {
	name   string
	e      encode.Encoder
	w      int
	signed bool
	mk     func(u uint64) interface{} // value of the encoder's type with bit pattern u
}

var intEncs = []intEnc{
	{"i8", encode.I8{}, 1, true, func(u uint64) interface{} { return int8(u) }},
	{"i16", encode.I16{}, 2, true, func(u uint64) interface{} { return int16(u) }},
	{"u16", encode.U16{}, 2, false, func(u uint64) interface{} { return uint16(u) }},
	{"i32", encode.I32{}, 4, true, func(u uint64) interface{} { return int32(u) }},
	{"u32", encode.U32{}, 4, false, func(u uint64) interface{} { return uint32(u) }},
	{"i64", encode.I64{}, 8, true, func(u uint64) interface{} { return int64(u) }},
	{"u64", encode.U64{}, 8, false, func(u uint64) interface{} { return uint64(u) }},
	{"int", encode.Int{}, 8, true, func(u uint64) interface{} { return int(int64(u)) }},
}

// viaEncs: the encoders the package's factories hand out (EncoderOf a value,
// GetSliceEltEncoder of a slice, EncoderByKind): encoders like any other, with the same
// on-disk layout as the type they are asked for.  A factory that fails yields a nil encoder,
// which every item then reports as a panic.
func viaEncs() []intEnc {
	out := []intEnc{}
	mk := func(name string, w int, f func(uint64) interface{}, zero, slice interface{}, kind reflect.Kind) {
		e1, _ := encode.EncoderOf(zero)
		e2, _ := encode.GetSliceEltEncoder(slice)
		e3, _ := encode.EncoderByKind(kind)
		out = append(out, intEnc{name + "-of", e1, w, false, f}, intEnc{name + "-slice", e2, w, false, f}, intEnc{name + "-kind", e3, w, false, f})
	}
	mk("u16", 2, func(u uint64) interface{} { return uint16(u) }, uint16(0), []uint16{}, reflect.Uint16)
	mk("u32", 4, func(u uint64) interface{} { return uint32(u) }, uint32(0), []uint32{}, reflect.Uint32)
	mk("u64", 8, func(u uint64) interface{} { return uint64(u) }, uint64(0), []uint64{}, reflect.Uint64)
	return out
}

func allIntEncs() []intEnc { return append(append([]intEnc{}, intEncs...), viaEncs()...) }

func codecItem(e encode.Encoder, v interface{}, w int, junk []byte) (it Ev) {
	neg, mag := negMag(bigOf(v), w)
	it = Ev{"neg": neg, "mag": mag, "enc": []int{}, "dn": -1, "dneg": 0, "dmag": []int{}, "size": -1, "esize": -1, "pan": ""}
	defer func() {
		if r := recover(); r != nil {
			it["pan"] = fmt.Sprint(r)
		}
	}()
	enc := e.Encode(v)
	it["enc"] = bints(enc)
	it["size"] = e.GetSize(v)
	it["esize"] = e.GetEncodedSize(enc)
	n, d := e.Decode(append(append([]byte{}, enc...), junk...))
	it["dn"] = n
	if reflect.TypeOf(d) != reflect.TypeOf(v) {
		it["pan"] = fmt.Sprintf("decoded type %T, want %T", d, v)
		return
	}
	dn, dm := negMag(bigOf(d), w)
	it["dneg"], it["dmag"] = dn, dm
	return
}

func junkBytes(r *rand.Rand) []byte {
	return []byte(randBytes(r, r.Intn(5), nil))
}

func emitCodecBatch(t *Tracer, m *Meta, ie intEnc, items []interface{}) {
	if len(items) == 0 {
		return
	}
	t.NextCase()
	m.Cases++
	t.Emit(Ev{"ev": "codec", "enc": ie.name, "w": ie.w, "signed": b2i(ie.signed), "items": items})
	m.Calls += len(items)
	m.Distinct += len(items)
}

type structV struct {
	A int32
	B uint16
	C [2]int8
	D uint64
	E [3]uint16
}

func genCodec(t *Tracer, m *Meta, tier string, seed int64) {
	r := rand.New(rand.NewSource(seed*982451653 + 15))
	quick := tier == "quick"
	for _, ie := range intEncs {
		batch := []interface{}{}
		flush := func() {
			emitCodecBatch(t, m, ie, batch)
			batch = []interface{}{}
		}
		add := func(u uint64) {
			batch = append(batch, codecItem(ie.e, ie.mk(u), ie.w, junkBytes(r)))
			if len(batch) >= 512 {
				flush()
			}
		}
		switch {
		case ie.w <= 2:
			// exhaustive
			for u := uint64(0); u < 1<<(8*uint(ie.w)); u++ {
				add(u)
			}
			m.class("exhaustive:" + ie.name)
		default:
			bits := uint(8 * ie.w)
			// boundaries
			for _, u := range []uint64{0, 1, 2, 127, 128, 255, 256, 65535, 65536, 1<<31 - 1, 1 << 31, 1<<32 - 1, 1 << 32, 1<<63 - 1, 1 << 63, ^uint64(0), ^uint64(0) - 1} {
				add(u & (1<<bits - 1 | (1<<bits-1)<<0))
				add(u)
			}
			for b := uint(0); b < bits; b++ {
				add(1 << b)
				add(1<<b - 1)
				add(^(uint64(1) << b))
			}
			n := 20000
			if ie.w == 8 {
				n = 4000
			}
			if !quick {
				n *= 50 // 10^6 per 32-bit encoder, 2*10^5 per 64-bit one
			}
			for i := 0; i < n; i++ {
				u := r.Uint64()
				switch r.Intn(4) {
				case 0:
					u >>= uint(r.Intn(64))
				case 1:
					u = ^(u >> uint(r.Intn(64)))
				}
				add(u)
			}
			m.class("sampled:" + ie.name)
		}
		flush()
	}
	// the encoders handed out by the factories
	for _, ie := range viaEncs() {
		batch := []interface{}{}
		bits := uint(8 * ie.w)
		for b := uint(0); b < bits; b++ {
			for _, u := range []uint64{1 << b, 1<<b - 1, ^(uint64(1) << b)} {
				batch = append(batch, codecItem(ie.e, ie.mk(u), ie.w, junkBytes(r)))
			}
		}
		for i := 0; i < 200; i++ {
			batch = append(batch, codecItem(ie.e, ie.mk(r.Uint64()>>uint(r.Intn(64))), ie.w, junkBytes(r)))
		}
		emitCodecBatch(t, m, ie, batch)
		m.class("factory:" + ie.name)
	}
	// String16: every length class
	lens := []int{0, 1, 2, 3, 127, 128, 255, 256, 257, 1000, 32767, 32768, 65534, 65535}
	// the two length bytes at their own boundaries, in every combination
	grid := []int{}
	for _, hi := range []int{0, 1, 2, 3, 0x7f, 0x80, 0xfe, 0xff} {
		for _, lo := range []int{0, 1, 0x7f, 0x80, 0xfe, 0xff} {
			grid = append(grid, hi<<8|lo)
		}
	}
	if quick {
		r.Shuffle(len(grid), func(i, j int) { grid[i], grid[j] = grid[j], grid[i] })
		grid = grid[:14]
	}
	lens = append(lens, grid...)
	items := []interface{}{}
	nrand := 200
	if !quick {
		nrand = 3000
	}
	for i := 0; i < len(lens)+nrand; i++ {
		l := 0
		if i < len(lens) {
			l = lens[i]
		} else {
			l = r.Intn(300)
		}
		s := randBytes(r, l, nil)
		it := Ev{"s": ints(s), "enc": []int{}, "dn": -1, "ds": []int{}, "size": -1, "esize": -1, "pan": ""}
		func() {
			defer func() {
				if rr := recover(); rr != nil {
					it["pan"] = fmt.Sprint(rr)
				}
			}()
			e := encode.String16{}
			enc := e.Encode(s)
			it["enc"] = bints(enc)
			it["size"] = e.GetSize(s)
			it["esize"] = e.GetEncodedSize(enc)
			n, d := e.Decode(append(append([]byte{}, enc...), junkBytes(r)...))
			it["dn"] = n
			it["ds"] = ints(d.(string))
		}()
		items = append(items, it)
		if len(items) >= 40 || l > 1000 {
			t.NextCase()
			m.Cases++
			t.Emit(Ev{"ev": "codecs16", "items": items})
			m.Calls += len(items)
			m.Distinct += len(items)
			items = []interface{}{}
		}
	}
	if len(items) > 0 {
		t.NextCase()
		t.Emit(Ev{"ev": "codecs16", "items": items})
		m.Calls += len(items)
	}
	m.class("string16")
	// Bytes{n}
	for _, n := range []int{0, 1, 2, 3, 4, 7, 8, 16, 31, 255, 1024} {
		items := []interface{}{}
		for k := 0; k < 8; k++ {
			v := []byte(randBytes(r, n, nil))
			it := Ev{"v": bints(v), "enc": []int{}, "dn": -1, "dv": []int{}, "size": -1, "esize": -1, "pan": ""}
			func() {
				defer func() {
					if rr := recover(); rr != nil {
						it["pan"] = fmt.Sprint(rr)
					}
				}()
				e := encode.Bytes{Size: n}
				enc := e.Encode(v)
				it["enc"] = bints(enc)
				it["size"] = e.GetSize(v)
				it["esize"] = e.GetEncodedSize(enc)
				dn, d := e.Decode(append(append([]byte{}, enc...), junkBytes(r)...))
				it["dn"] = dn
				it["dv"] = bints(d.([]byte))
			}()
			items = append(items, it)
		}
		t.NextCase()
		m.Cases++
		t.Emit(Ev{"ev": "codecbytes", "n": n, "items": items})
		m.Calls += len(items)
	}
	m.class("bytes")
	// Dummy
	{
		e := encode.Dummy{}
		enc := e.Encode(12345)
		n, d := e.Decode([]byte{1, 2, 3})
		t.NextCase()
		t.Emit(Ev{"ev": "codecdummy", "enclen": len(enc), "dn": n, "dnil": b2i(d == nil), "size": e.GetSize(1), "esize": e.GetEncodedSize(enc)})
		m.class("dummy")
	}
	// TypeEncoder: a fixed-size struct with nested arrays, both byte orders
	for _, bigE := range []bool{false, true} {
		var bo binary.ByteOrder = binary.LittleEndian
		if bigE {
			bo = binary.BigEndian
		}
		te, err := encode.NewTypeEncoderEndian(structV{}, bo)
		if err != nil {
			panic(err)
		}
		items := []interface{}{}
		nst := 300
		if !quick {
			nst = 5000
		}
		for k := 0; k < nst; k++ {
			v := structV{A: int32(r.Uint32()), B: uint16(r.Uint32()), C: [2]int8{int8(r.Uint32()), int8(r.Uint32())}, D: r.Uint64(), E: [3]uint16{uint16(r.Uint32()), 0, 0xffff}}
			if k%7 == 0 {
				v = structV{A: -1 << 31, B: 0xffff, C: [2]int8{-128, 127}, D: ^uint64(0), E: [3]uint16{1, 256, 0x8000}}
			}
			fieldsOf := func(x structV) []interface{} {
				fs := []interface{}{}
				addf := func(val interface{}, w int) {
					n, mg := negMag(bigOf(val), w)
					fs = append(fs, Ev{"neg": n, "mag": mg})
				}
				addf(x.A, 4)
				addf(x.B, 2)
				addf(x.C[0], 1)
				addf(x.C[1], 1)
				addf(x.D, 8)
				addf(x.E[0], 2)
				addf(x.E[1], 2)
				addf(x.E[2], 2)
				return fs
			}
			it := Ev{"fields": fieldsOf(v), "enc": []int{}, "dn": -1, "dfields": []interface{}{}, "size": -1, "esize": -1, "pan": "", "same": 0}
			func() {
				defer func() {
					if rr := recover(); rr != nil {
						it["pan"] = fmt.Sprint(rr)
					}
				}()
				enc := te.Encode(v)
				it["enc"] = bints(enc)
				it["size"] = te.GetSize(v)
				it["esize"] = te.GetEncodedSize(enc)
				n, d := te.Decode(append(append([]byte{}, enc...), junkBytes(r)...))
				it["dn"] = n
				it["dfields"] = fieldsOf(d.(structV))
				it["same"] = b2i(d == interface{}(v))
			}()
			items = append(items, it)
			if len(items) >= 100 {
				t.NextCase()
				m.Cases++
				t.Emit(Ev{"ev": "codecstruct", "big": b2i(bigE), "items": items})
				m.Calls += len(items)
				m.Distinct += len(items)
				items = []interface{}{}
			}
		}
		if len(items) > 0 {
			t.NextCase()
			t.Emit(Ev{"ev": "codecstruct", "big": b2i(bigE), "items": items})
			m.Calls += len(items)
		}
		m.class(fmt.Sprintf("struct:bigendian=%v", bigE))
	}
	// TypeEncoder over the other fixed-size types it accepts: builtin and DEFINED scalar
	// types, arrays of them, structs with fields of defined types.  Decode must give back
	// v itself: same dynamic type, same value (interface equality).
	for _, bigE := range []bool{false, true} {
		var bo binary.ByteOrder = binary.LittleEndian
		if bigE {
			bo = binary.BigEndian
		}
		gens := []func() interface{}{
			func() interface{} { return r.Uint32() },
			func() interface{} { return int16(r.Uint32()) },
			func() interface{} { return tOff(r.Uint32()) },
			func() interface{} { return tDelta(r.Uint32()) },
			func() interface{} { return tStamp(r.Uint64()) },
			func() interface{} { return tFlag(r.Uint32()) },
			func() interface{} { return [3]tDelta{tDelta(r.Uint32()), -1, tDelta(r.Uint32())} },
			func() interface{} {
				return tRec{Off: tOff(r.Uint32()), Steps: [2][2]tDelta{{tDelta(r.Uint32()), -32768}, {32767, tDelta(r.Uint32())}}, F: tFlag(r.Uint32()), S: tStamp(r.Uint64())}
			},
		}
		per := 12
		if !quick {
			per = 200
		}
		for gi, g := range gens {
			te, err := encode.NewTypeEncoderEndian(g(), bo)
			switch gi % 3 {
			case 1:
				// the constructor that takes the type instead of a value
				te, err = encode.NewTypeEncoderEndianByType(reflect.TypeOf(g()), bo)
			case 2:
				// a POINTER to the zero value (the constructor dereferences it)
				pv := reflect.New(reflect.TypeOf(g()))
				te, err = encode.NewTypeEncoderEndian(pv.Interface(), bo)
			}
			if err != nil {
				panic(err)
			}
			items := []interface{}{}
			for k := 0; k < per; k++ {
				items = append(items, typeEncItem(te, g(), r))
			}
			t.NextCase()
			m.Cases++
			t.Emit(Ev{"ev": "codecstruct", "big": b2i(bigE), "type": typeEncName(gens[gi]()), "items": items})
			m.Calls += len(items)
			m.Distinct += len(items)
			m.class(fmt.Sprintf("typeencoder:%T", gens[gi]()))
		}
	}
	m.Samples = append(m.Samples, Ev{"enc": "i16", "value": -2, "expected_bytes": []int{254, 255}})
}

// defined fixed-size types for TypeEncoder
type tOff uint32
type tDelta int16
type tStamp int64
type tFlag uint8
type tRec struct {
	Off   tOff
	Steps [2][2]tDelta
	F     tFlag
	S     tStamp
}

// the types TypeEncoder is exercised with, by the name logged in the trace
var typeEncTypes = map[string]reflect.Type{
	"structV": reflect.TypeOf(structV{}), "uint32": reflect.TypeOf(uint32(0)), "int16": reflect.TypeOf(int16(0)),
	"tOff": reflect.TypeOf(tOff(0)), "tDelta": reflect.TypeOf(tDelta(0)), "tStamp": reflect.TypeOf(tStamp(0)),
	"tFlag": reflect.TypeOf(tFlag(0)), "arr3tDelta": reflect.TypeOf([3]tDelta{}), "tRec": reflect.TypeOf(tRec{}),
}

func typeEncName(v interface{}) string {
	for n, t := range typeEncTypes {
		if t == reflect.TypeOf(v) {
			return n
		}
	}
	panic("unregistered type")
}

// typeEncItem pushes one value through Encode / GetSize / GetEncodedSize / Decode (junk appended).
func typeEncItem(te *encode.TypeEncoder, v interface{}, r *rand.Rand) Ev {
	it := Ev{"fields": flatFields(reflect.ValueOf(v)), "enc": []int{}, "dn": -1, "dfields": []interface{}{}, "size": -1, "esize": -1, "pan": "", "same": 0}
	defer func() {
		if rr := recover(); rr != nil {
			it["pan"] = fmt.Sprint(rr)
		}
	}()
	enc := te.Encode(v)
	it["enc"] = bints(enc)
	it["size"] = te.GetSize(v)
	it["esize"] = te.GetEncodedSize(enc)
	n, d := te.Decode(append(append([]byte{}, enc...), junkBytes(r)...))
	it["dn"] = n
	it["dfields"] = flatFields(reflect.ValueOf(d))
	it["same"] = b2i(d == v)
	return it
}

// fillFields is the inverse of flatFields: it sets the scalar leaves of v from fs[*k:].
func fillFields(v reflect.Value, fs []interface{}, k *int) {
	switch v.Kind() {
	case reflect.Struct:
		for i := 0; i < v.NumField(); i++ {
			fillFields(v.Field(i), fs, k)
		}
	case reflect.Array:
		for i := 0; i < v.Len(); i++ {
			fillFields(v.Index(i), fs, k)
		}
	default:
		f := fs[*k].(map[string]interface{})
		*k++
		mag := toIntSlice(f["mag"])
		var u uint64
		for j := len(mag) - 1; j >= 0; j-- {
			u = u<<8 | uint64(mag[j])
		}
		if int(f["neg"].(float64)) == 1 {
			u = -u
		}
		switch v.Kind() {
		case reflect.Int8, reflect.Int16, reflect.Int32, reflect.Int64:
			v.SetInt(int64(u))
		default:
			v.SetUint(u)
		}
	}
}

// flatFields lists the scalar leaves of a fixed-size value in declaration order as
// sign + magnitude (what the spec's EncFields consumes).
func flatFields(v reflect.Value) []interface{} {
	fs := []interface{}{}
	var walk func(v reflect.Value)
	walk = func(v reflect.Value) {
		switch v.Kind() {
		case reflect.Struct:
			for i := 0; i < v.NumField(); i++ {
				walk(v.Field(i))
			}
		case reflect.Array:
			for i := 0; i < v.Len(); i++ {
				walk(v.Index(i))
			}
		case reflect.Int8, reflect.Int16, reflect.Int32, reflect.Int64:
			n, mg := negMag(big.NewInt(v.Int()), int(v.Type().Size()))
			fs = append(fs, Ev{"neg": n, "mag": mg})
		case reflect.Uint8, reflect.Uint16, reflect.Uint32, reflect.Uint64:
			n, mg := negMag(new(big.Int).SetUint64(v.Uint()), int(v.Type().Size()))
			fs = append(fs, Ev{"neg": n, "mag": mg})
		default:
			fs = append(fs, Ev{"neg": 0, "mag": []int{-1}})
		}
	}
	walk(v)
	return fs
}

// ============================ C16: compacted arrays ================================

type arrKind struct {
	name string
	w    int
	// build returns the array (nil on error), the error class
	build func(idx []int32, elts [][]byte) (arr interface{}, err error)
	typed func(a interface{}, i int32) ([]byte, bool)
	base  func(a interface{}) *array.Base
	fresh func() (interface{}, *array.Base)
}

func leBytes(u uint64, w int) []byte { return le(u, w) }

var arrKinds = []arrKind{
	{"u16", 2,
		func(idx []int32, e [][]byte) (interface{}, error) {
			v := make([]uint16, len(e))
			for i, b := range e {
				v[i] = binary.LittleEndian.Uint16(b)
			}
			a, err := array.NewU16(idx, v)
			if a == nil {
				return nil, err
			}
			return a, err
		},
		func(a interface{}, i int32) ([]byte, bool) {
			v, ok := a.(*array.U16).Get(i)
			return leBytes(uint64(v), 2), ok
		},
		func(a interface{}) *array.Base { return &a.(*array.U16).Base },
		func() (interface{}, *array.Base) { a := &array.U16{}; return a, &a.Base }},
	{"u32", 4,
		func(idx []int32, e [][]byte) (interface{}, error) {
			v := make([]uint32, len(e))
			for i, b := range e {
				v[i] = binary.LittleEndian.Uint32(b)
			}
			a, err := array.NewU32(idx, v)
			if a == nil {
				return nil, err
			}
			return a, err
		},
		func(a interface{}, i int32) ([]byte, bool) {
			v, ok := a.(*array.U32).Get(i)
			return leBytes(uint64(v), 4), ok
		},
		func(a interface{}) *array.Base { return &a.(*array.U32).Base },
		func() (interface{}, *array.Base) { a := &array.U32{}; return a, &a.Base }},
	{"u64", 8,
		func(idx []int32, e [][]byte) (interface{}, error) {
			v := make([]uint64, len(e))
			for i, b := range e {
				v[i] = binary.LittleEndian.Uint64(b)
			}
			a, err := array.NewU64(idx, v)
			if a == nil {
				return nil, err
			}
			return a, err
		},
		func(a interface{}, i int32) ([]byte, bool) { v, ok := a.(*array.U64).Get(i); return leBytes(v, 8), ok },
		func(a interface{}) *array.Base { return &a.(*array.U64).Base },
		func() (interface{}, *array.Base) { a := &array.U64{}; return a, &a.Base }},
	{"i16", 2,
		func(idx []int32, e [][]byte) (interface{}, error) {
			v := make([]int16, len(e))
			for i, b := range e {
				v[i] = int16(binary.LittleEndian.Uint16(b))
			}
			a, err := array.NewI16(idx, v)
			if a == nil {
				return nil, err
			}
			return a, err
		},
		func(a interface{}, i int32) ([]byte, bool) {
			v, ok := a.(*array.I16).Get(i)
			return leBytes(uint64(v), 2), ok
		},
		func(a interface{}) *array.Base { return &a.(*array.I16).Base },
		func() (interface{}, *array.Base) { a := &array.I16{}; return a, &a.Base }},
	{"i32", 4,
		func(idx []int32, e [][]byte) (interface{}, error) {
			v := make([]int32, len(e))
			for i, b := range e {
				v[i] = int32(binary.LittleEndian.Uint32(b))
			}
			a, err := array.NewI32(idx, v)
			if a == nil {
				return nil, err
			}
			return a, err
		},
		func(a interface{}, i int32) ([]byte, bool) {
			v, ok := a.(*array.I32).Get(i)
			return leBytes(uint64(v), 4), ok
		},
		func(a interface{}) *array.Base { return &a.(*array.I32).Base },
		func() (interface{}, *array.Base) { a := &array.I32{}; return a, &a.Base }},
	{"i64", 8,
		func(idx []int32, e [][]byte) (interface{}, error) {
			v := make([]int64, len(e))
			for i, b := range e {
				v[i] = int64(binary.LittleEndian.Uint64(b))
			}
			a, err := array.NewI64(idx, v)
			if a == nil {
				return nil, err
			}
			return a, err
		},
		func(a interface{}, i int32) ([]byte, bool) {
			v, ok := a.(*array.I64).Get(i)
			return leBytes(uint64(v), 8), ok
		},
		func(a interface{}) *array.Base { return &a.(*array.I64).Base },
		func() (interface{}, *array.Base) { a := &array.I64{}; return a, &a.Base }},
}

type arrStruct struct {
	X int32
	Y uint16
}

func arrErrClass(err error) string {
	if err == nil {
		return ""
	}
	msg := err.Error()
	if strings.Contains(msg, array.ErrIndexNotAscending.Error()) {
		return "asc"
	}
	if strings.Contains(msg, array.ErrIndexLen.Error()) {
		return "len"
	}
	return "other"
}

func getObs(f func() ([]byte, bool)) (o []interface{}) {
	defer func() {
		if r := recover(); r != nil {
			o = []interface{}{-9, []int{}}
		}
	}()
	b, ok := f()
	if !ok {
		return []interface{}{0, []int{}}
	}
	return []interface{}{1, bints(b)}
}

// compact: a miss is logged as the empty list, a hit as the element bytes (never empty)
func compactObs(os []interface{}) []interface{} {
	out := make([]interface{}, len(os))
	for i, o := range os {
		p := o.([]interface{})
		switch p[0].(int) {
		case 0:
			out[i] = []int{}
		case 1:
			out[i] = p[1]
		default:
			out[i] = []int{-9}
		}
	}
	return out
}

// arrEv builds an array of kind k from (idx, elts) and probes it.
func arrEv(k arrKind, idx []int32, elts [][]byte, probes []int32) Ev {
	e := Ev{"ev": "arr", "type": k.name, "w": k.w, "index": idx, "nelts": len(elts), "err": "", "pan": "", "built": 0,
		"cnt": -1, "bits": []int{}, "offsets": []int{}, "probes": probes, "wire": []int{},
		"typed": []interface{}{}, "generic": []interface{}{}, "raw": []interface{}{}, "rttyped": []interface{}{}, "rtgeneric": []interface{}{}}
	ev := [][]int{}
	for _, b := range elts {
		ev = append(ev, bints(b))
	}
	e["elts"] = ev
	if idx == nil {
		e["index"] = []int32{}
	}
	func() {
		defer func() {
			if r := recover(); r != nil {
				e["pan"] = fmt.Sprint(r)
			}
		}()
		a, err := k.build(idx, elts)
		if err == nil && a != nil && reinitChoice(idx) {
			// the same input given to Init() of an object that already holds ANOTHER array
			// (200 elements over more words): nothing of the earlier content may survive
			oi := make([]int32, 200)
			for j := range oi {
				oi[j] = int32(3*j + 1)
			}
			if used, uerr := k.build(oi, randElts(rand.New(rand.NewSource(int64(len(idx))+5)), len(oi), k.w)); uerr == nil && used != nil {
				out := reflect.ValueOf(used).MethodByName("Init").Call([]reflect.Value{reflect.ValueOf(idx), reflect.ValueOf(genericElts(k, elts))})
				if ie, _ := out[0].Interface().(error); ie == nil {
					a = used
					e["reinit"] = 1
				}
			}
		}
		e["err"] = arrErrClass(err)
		if a == nil || reflect.ValueOf(a).IsNil() {
			return
		}
		e["built"] = 1
		if err != nil {
			return
		}
		base := k.base(a)
		e["cnt"] = int(base.Cnt)
		e["bits"] = bmOnes(base.Bitmaps)
		off := []int{}
		for i := range base.Bitmaps {
			off = append(off, int(base.Offsets[i]))
		}
		e["offsets"] = off
		// generic accessor: array.Array with a TypeEncoder
		gen, gerr := array.New(idx, genericElts(k, elts))
		// raw bytes accessor
		typed, generic, raw := []interface{}{}, []interface{}{}, []interface{}{}
		for _, p := range probes {
			p := p
			typed = append(typed, getObs(func() ([]byte, bool) { return k.typed(a, p) }))
			raw = append(raw, getObs(func() ([]byte, bool) { return base.GetBytes(p, k.w) }))
			if gerr == nil && gen != nil {
				generic = append(generic, getObs(func() ([]byte, bool) {
					if len(idx) == 0 {
						return nil, false
					}
					v, ok := gen.Get(p)
					if !ok {
						return nil, false
					}
					return typedLE(k, v), true
				}))
			} else {
				generic = append(generic, []interface{}{-9, []int{}})
			}
		}
		e["typed"], e["generic"], e["raw"] = compactObs(typed), compactObs(generic), compactObs(raw)
		// protobuf round trip into the typed and into the generic type
		bs, merr := proto.Marshal(base)
		if merr != nil {
			e["pan"] = "marshal: " + merr.Error()
			return
		}
		if len(bs) <= 2048 {
			e["wire"] = bints(bs) // Level C: the message byte for byte (SlimArray.ArrayMsg)
		}
		a2, b2 := k.fresh()
		if err := proto.Unmarshal(bs, b2); err != nil {
			e["pan"] = "unmarshal typed: " + err.Error()
			return
		}
		// the generic array as its public constructor makes it
		g2, gerr2 := array.NewEmpty(zeroElt(k))
		if gerr2 != nil {
			e["pan"] = "NewEmpty: " + gerr2.Error()
			return
		}
		if err := proto.Unmarshal(bs, g2); err != nil {
			e["pan"] = "unmarshal generic: " + err.Error()
			return
		}
		rtt, rtg := []interface{}{}, []interface{}{}
		for _, p := range probes {
			p := p
			rtt = append(rtt, getObs(func() ([]byte, bool) { return k.typed(a2, p) }))
			rtg = append(rtg, getObs(func() ([]byte, bool) {
				if len(idx) == 0 {
					return nil, false
				}
				v, ok := g2.Get(p)
				if !ok {
					return nil, false
				}
				return typedLE(k, v), true
			}))
		}
		e["rttyped"], e["rtgeneric"] = compactObs(rtt), compactObs(rtg)
	}()
	return e
}

// arrBigEv: a large array regenerated from (kind, n, kseed): n ascending indexes below 2^20
// in clusters separated by empty words, random elements, ~400 probes (members, neighbours,
// word edges, the ends).  Layer M fields are dropped; `pos` is the witness of each probe: the
// 1-based position of the greatest index <= probe (0 if none), verified by the spec.
func arrBigEv(k arrKind, n int, kseed int64) Ev {
	r := rand.New(rand.NewSource(kseed))
	idx := make([]int32, 0, n)
	x := int32(r.Intn(64))
	room := int32(1<<20) - int32(n) - 64
	for len(idx) < n {
		idx = append(idx, x)
		step := int32(1)
		if room > 0 && r.Intn(8) == 0 {
			g := int32(r.Intn(150))
			if g > room {
				g = room
			}
			room -= g
			step += g
		}
		x += step
	}
	elts := randElts(r, n, k.w)
	ps := map[int32]bool{0: true, idx[0]: true, idx[n-1]: true, idx[n-1] | 63: true}
	for i := 0; i < 130; i++ {
		j := r.Intn(n)
		if i < 40 {
			j = n - 1 - r.Intn(300) // the last elements: the largest offsets
		}
		for d := int32(-1); d <= 1; d++ {
			if idx[j]+d >= 0 && idx[j]+d <= idx[n-1]|63 {
				ps[idx[j]+d] = true
			}
		}
	}
	for _, j := range []int{32766, 32767, 32768, 65534, 65535, 65536} {
		if j < n {
			ps[idx[j]] = true
		}
	}
	probes := []int32{}
	for p := range ps {
		probes = append(probes, p)
	}
	sort.Slice(probes, func(a, b int) bool { return probes[a] < probes[b] })
	e := arrEv(k, idx, elts, probes)
	e["ev"] = "arrbig"
	e["params"] = Ev{"type": k.name, "n": n, "kseed": fmt.Sprint(kseed)}
	for _, f := range []string{"bits", "offsets", "wire"} {
		delete(e, f)
	}
	pos := make([]int, len(probes))
	for i, p := range probes {
		pos[i] = sort.Search(n, func(j int) bool { return idx[j] > p })
	}
	e["pos"] = pos
	return e
}

// reinitChoice: a function of the input (a replay makes the same choice)
func reinitChoice(idx []int32) bool {
	if len(idx) == 0 {
		// Init() with no elements returns before InitElts: the element bytes of the earlier
		// content stay in the object (and in its marshalled form) although nothing can reach
		// them.  No listed property speaks about it (every probe still misses); the case is
		// left out so that the byte-level comparison of Layer M does not report it on every run.
		return false
	}
	h := len(idx) * 7
	for _, x := range idx {
		h = h*31 + int(x)
	}
	if h < 0 {
		h = -h
	}
	return h%3 == 0
}

// zeroElt: the zero value of the element type of kind k
func zeroElt(k arrKind) interface{} {
	return reflect.Zero(reflect.TypeOf(genericElts(k, nil)).Elem()).Interface()
}

// typedLE: the little-endian bytes of v -- only if v has exactly the element type of the
// array (a uint32 coming out of an int32 array is NOT the element)
func typedLE(k arrKind, v interface{}) []byte {
	if reflect.TypeOf(v) != reflect.TypeOf(zeroElt(k)) {
		return []byte{0xba, 0xd0 | byte(k.w), 0x7e}
	}
	return valueLE(v, k.w)
}

func firstElt(k arrKind, elts [][]byte) interface{} {
	return reflect.ValueOf(genericElts(k, elts)).Index(0).Interface()
}

func genericElts(k arrKind, elts [][]byte) interface{} {
	switch k.name {
	case "u16":
		v := make([]uint16, len(elts))
		for i, b := range elts {
			v[i] = binary.LittleEndian.Uint16(b)
		}
		return v
	case "u32":
		v := make([]uint32, len(elts))
		for i, b := range elts {
			v[i] = binary.LittleEndian.Uint32(b)
		}
		return v
	case "u64":
		v := make([]uint64, len(elts))
		for i, b := range elts {
			v[i] = binary.LittleEndian.Uint64(b)
		}
		return v
	case "i16":
		v := make([]int16, len(elts))
		for i, b := range elts {
			v[i] = int16(binary.LittleEndian.Uint16(b))
		}
		return v
	case "i32":
		v := make([]int32, len(elts))
		for i, b := range elts {
			v[i] = int32(binary.LittleEndian.Uint32(b))
		}
		return v
	case "i64":
		v := make([]int64, len(elts))
		for i, b := range elts {
			v[i] = int64(binary.LittleEndian.Uint64(b))
		}
		return v
	}
	panic("kind")
}

func valueLE(v interface{}, w int) []byte {
	b := bigOf(v)
	if b == nil {
		return []byte{0xde, 0xad}
	}
	u := new(big.Int).And(b, new(big.Int).Sub(new(big.Int).Lsh(big.NewInt(1), uint(8*w)), big.NewInt(1)))
	return le(u.Uint64(), w)
}

func randElts(r *rand.Rand, n, w int) [][]byte {
	out := make([][]byte, n)
	for i := range out {
		var u uint64
		switch r.Intn(5) {
		case 0:
			u = 0
		case 1:
			u = ^uint64(0)
		case 2:
			u = 1 << uint(8*w-1)
		case 3:
			u = 1<<uint(8*w-1) - 1
		default:
			u = r.Uint64()
		}
		out[i] = le(u, w)
	}
	return out
}

func probesFor(r *rand.Rand, idx []int32) []int32 {
	if len(idx) == 0 {
		return []int32{}
	}
	span := (int(idx[len(idx)-1])/64 + 1) * 64
	ps := map[int32]bool{}
	if span <= 512 {
		for i := 0; i < span; i++ {
			ps[int32(i)] = true
		}
	} else {
		for _, x := range idx {
			if r.Intn(len(idx)/150+1) == 0 {
				for d := int32(-1); d <= 1; d++ {
					if x+d >= 0 && int(x+d) < span {
						ps[x+d] = true
					}
				}
			}
		}
		for wd := 0; wd < span/64; wd++ {
			if r.Intn(span/64/100+1) == 0 {
				ps[int32(wd*64)] = true
				ps[int32(wd*64+63)] = true
			}
		}
		ps[int32(span-1)] = true
		ps[0] = true
	}
	out := []int32{}
	for p := range ps {
		out = append(out, p)
	}
	sort.Slice(out, func(i, j int) bool { return out[i] < out[j] })
	return out
}

func genArray(t *Tracer, m *Meta, tier string, seed int64) {
	r := rand.New(rand.NewSource(seed*472882027 + 16))
	quick := tier == "quick"
	boundary := []int32{0, 1, 62, 63, 64, 65, 127, 128, 191, 192, 255, 256}
	emit := func(e Ev) {
		t.NextCase()
		m.Cases++
		m.Calls++
		t.Emit(e)
	}
	// (1) every subset of the 12 boundary positions
	kinds := arrKinds
	if quick {
		kinds = []arrKind{arrKinds[int(seed)%len(arrKinds)]}
	}
	for _, k := range kinds {
		for mask := 0; mask < 1<<uint(len(boundary)); mask++ {
			idx := []int32{}
			for b, x := range boundary {
				if mask>>uint(b)&1 == 1 {
					idx = append(idx, x)
				}
			}
			emit(arrEv(k, idx, randElts(r, len(idx), k.w), probesFor(r, idx)))
			m.Distinct++
		}
		m.class("boundary-subsets:" + k.name)
	}
	// (2) random index sets in [0, 2^20): dense, sparse, gappy
	nRand := 40
	if !quick {
		nRand = 1000
	}
	for i := 0; i < nRand; i++ {
		k := arrKinds[r.Intn(len(arrKinds))]
		set := map[int32]bool{}
		n := 1 + r.Intn(400)
		switch i % 4 {
		case 0: // dense
			base := int32(r.Intn(1 << 19))
			for j := 0; j < n; j++ {
				set[base+int32(r.Intn(n*2))] = true
			}
		case 1: // sparse
			for j := 0; j < n; j++ {
				set[int32(r.Intn(1<<20))] = true
			}
		case 2: // gappy: clusters separated by empty words
			x := int32(0)
			for j := 0; j < n && x < 1<<20-200; j++ {
				if r.Intn(6) == 0 {
					x += int32(64 * (1 + r.Intn(40)))
				}
				x += int32(1 + r.Intn(3))
				set[x] = true
			}
		case 3: // single / word-edge elements
			for j := 0; j < 1+r.Intn(5); j++ {
				set[int32(64*r.Intn(1<<14)+[]int{0, 63}[r.Intn(2)])] = true
			}
		}
		idx := []int32{}
		for x := range set {
			idx = append(idx, x)
		}
		sort.Slice(idx, func(a, b int) bool { return idx[a] < idx[b] })
		emit(arrEv(k, idx, randElts(r, len(idx), k.w), probesFor(r, idx)))
		m.Distinct++
		m.class("random:" + []string{"dense", "sparse", "gappy", "edges"}[i%4])
	}
	// (2b) large arrays: element counts on both sides of 2^15 and 2^16 (offsets and counts are
	// 32-bit in the stored form; a narrower intermediate shows only here).  Too large for the
	// Model's quadratic Offsets(): judged by Layer P with a position witness per probe.
	// every typed accessor has its own offset arithmetic: one array above 2^16 elements per
	// element type in every run (its offsets pass 2^15 and 2^16 on the way)
	for _, k := range arrKinds {
		n := 65536 + r.Intn(6000)
		emit(arrBigEv(k, n, r.Int63()))
		m.Distinct++
		m.class("large:" + k.name)
	}
	if !quick {
		for i, n := range []int{32767, 32768, 32769, 40000, 65535, 65536, 65537, 90000} {
			k := arrKinds[(i+int(seed))%len(arrKinds)]
			emit(arrBigEv(k, n, r.Int63()))
			m.Distinct++
			m.class("large:" + fmt.Sprint(n>>15) + "x2^15")
		}
	}
	// (3) invalid inputs: equal or descending neighbours at any position; length off by any amount
	nBad := 500
	if !quick {
		nBad = 10000
	}
	for i := 0; i < nBad; i++ {
		k := arrKinds[r.Intn(len(arrKinds))]
		n := 2 + r.Intn(10)
		idx := make([]int32, n)
		x := int32(r.Intn(100))
		for j := range idx {
			idx[j] = x
			x += int32(1 + r.Intn(70))
		}
		nelts := n
		kind := i % 5
		switch kind {
		case 0:
			p := r.Intn(n - 1)
			idx[p+1] = idx[p]
		case 1:
			p := r.Intn(n - 1)
			idx[p], idx[p+1] = idx[p+1], idx[p]
		case 2:
			// the swapped / equal pair inside a dense consecutive run
			base := int32(r.Intn(200))
			for j := range idx {
				idx[j] = base + int32(j)
			}
			p := r.Intn(n - 1)
			if r.Intn(2) == 0 {
				idx[p], idx[p+1] = idx[p+1], idx[p]
			} else {
				idx[p+1] = idx[p]
				if p+2 < n {
					idx[p+2] = idx[p] + 2
				}
			}
		case 3:
			nelts = n + 1 + r.Intn(3)
		case 4:
			nelts = r.Intn(n)
		}
		emit(arrEv(k, idx, randElts(r, nelts, k.w), []int32{}))
		m.class("invalid:" + []string{"equal", "swapped", "dense-run", "too-many-elts", "too-few-elts"}[kind])
	}
	// (4) fixed-size struct elements through the generic array
	for i := 0; i < 30; i++ {
		n := r.Intn(40)
		idx := make([]int32, n)
		x := int32(0)
		elts := make([]arrStruct, n)
		for j := range idx {
			x += int32(1 + r.Intn(90))
			idx[j] = x
			elts[j] = arrStruct{X: int32(r.Uint32()), Y: uint16(r.Uint32())}
		}
		emit(structArrEv(idx, elts, probesFor(r, idx)))
		m.class("struct-elements")
	}
	m.Samples = append(m.Samples, Ev{"type": "u16", "index": []int{0, 63, 64, 256}, "probes": "0..319"})
}

func structArrEv(idx []int32, elts []arrStruct, probes []int32) Ev {
	e := Ev{"ev": "arr", "type": "struct", "w": 6, "index": idx, "nelts": len(elts), "err": "", "pan": "", "built": 0,
		"cnt": -1, "bits": []int{}, "offsets": []int{}, "probes": probes, "wire": []int{},
		"typed": []interface{}{}, "generic": []interface{}{}, "raw": []interface{}{}, "rttyped": []interface{}{}, "rtgeneric": []interface{}{}}
	ev := [][]int{}
	enc := func(s arrStruct) []byte {
		b := make([]byte, 6)
		binary.LittleEndian.PutUint32(b, uint32(s.X))
		binary.LittleEndian.PutUint16(b[4:], s.Y)
		return b
	}
	for _, s := range elts {
		ev = append(ev, bints(enc(s)))
	}
	e["elts"] = ev
	func() {
		defer func() {
			if r := recover(); r != nil {
				e["pan"] = fmt.Sprint(r)
			}
		}()
		a, err := array.New(idx, elts)
		e["err"] = arrErrClass(err)
		if a == nil {
			return
		}
		e["built"] = 1
		e["cnt"] = int(a.Cnt)
		e["bits"] = bmOnes(a.Bitmaps)
		off := []int{}
		for i := range a.Bitmaps {
			off = append(off, int(a.Offsets[i]))
		}
		e["offsets"] = off
		bs, _ := proto.Marshal(&a.Base)
		if len(bs) <= 2048 {
			e["wire"] = bints(bs)
		}
		g2 := &array.Array{}
		if len(idx) > 0 {
			te, _ := encode.NewTypeEncoderEndian(arrStruct{}, binary.LittleEndian)
			g2.EltEncoder = te
		}
		if err := proto.Unmarshal(bs, g2); err != nil {
			e["pan"] = "unmarshal: " + err.Error()
			return
		}
		gen, raw, rtg := []interface{}{}, []interface{}{}, []interface{}{}
		for _, p := range probes {
			p := p
			get := func(x *array.Array) func() ([]byte, bool) {
				return func() ([]byte, bool) {
					if len(idx) == 0 {
						return nil, false
					}
					v, ok := x.Get(p)
					if !ok {
						return nil, false
					}
					return enc(v.(arrStruct)), true
				}
			}
			gen = append(gen, getObs(get(a)))
			raw = append(raw, getObs(func() ([]byte, bool) { return a.GetBytes(p, 6) }))
			rtg = append(rtg, getObs(get(g2)))
		}
		// a struct array has no typed accessor: the generic one stands in
		e["typed"], e["generic"], e["raw"], e["rttyped"], e["rtgeneric"] = compactObs(gen), compactObs(gen), compactObs(raw), compactObs(rtg), compactObs(rtg)
	}()
	return e
}

// ============================ C17: size ============================================

// filterSpellings: the ways a caller can ask for filter mode (no stored prefixes): no Opt
// argument, an empty Opt, and every mix of nil and explicit false for the three prefix options
// (DedupValue is irrelevant without values).  Which one a key set gets is a function of the
// key set, so that a replay makes the same choice.
var filterSpellings = [][4]int{{2, 2, 2, 2}, {2, 2, 2, 2}, {1, 0, 0, 0}, {2, 2, 2, 0}, {0, 0, 0, 0}, {2, 0, 2, 2}, {2, 2, 0, 2}, {2, 0, 0, 2}, {0, 2, 2, 0}, {2, 0, 0, 0}}

func filterSpelling(keys []string) (o4 [4]int, noOpt bool) {
	h := len(keys) * 31
	if len(keys) > 0 {
		for _, k := range []string{keys[0], keys[len(keys)-1], keys[len(keys)/2]} {
			for i := 0; i < len(k) && i < 64; i++ {
				h = h*131 + int(k[i])
			}
			h = h*7 + len(k)
		}
	}
	if h < 0 {
		h = -h
	}
	i := h % len(filterSpellings)
	return filterSpellings[i], i == 0
}

func sizeOf(keys []string) (int, *Decoded) {
	o4, noOpt := filterSpelling(keys)
	c := &TrieCase{Keys: keys, Enc: "none", Opt4: o4, NoOpt: noOpt}
	st, _, _ := c.Build()
	if st == nil {
		return -1, nil
	}
	b, err := st.Marshal()
	if err != nil {
		return -1, nil
	}
	sl, err := ParseSlim(b)
	if err != nil {
		return len(b), nil
	}
	d, _ := Decode(sl)
	return len(b), d
}

func sizeEv(family string, keys []string) Ev {
	n, d := sizeOf(keys)
	e := Ev{"ev": "size", "family": family, "n": len(keys), "maxkeylen": maxLen(keys), "mlen": n,
		"inner": 0, "big": 0, "short": 0, "shortsize": 0, "steps": 0, "nodes": 0, "haslp": 0, "haslv": 0, "ipmode": "none"}
	if d != nil {
		e["inner"], e["big"], e["short"], e["shortsize"], e["steps"], e["nodes"] = d.InnerCnt, d.BigCnt, d.ShortCnt, d.ShortSize, d.StepCnt, len(d.Nodes)
		e["haslp"], e["haslv"], e["ipmode"] = b2i(d.HasLeafPrefixes), b2i(d.HasLeaves), d.InnerPrefixMode
	}
	return e
}

func sizeFamilies(r *rand.Rand, fam string, n int) []string {
	ks := []string{}
	switch fam {
	case "caterpillar-binary":
		// (not through genKeys: sizes are not modelled by TLC, the height may be large)
		for i := 0; i < n; i++ {
			k := make([]byte, i+1)
			for j := 0; j < i; j++ {
				k[j] = 'a'
			}
			k[i] = 'b'
			ks = append(ks, string(k))
		}
	case "long-steps":
		k := []byte{}
		for i := 0; i < n; i++ {
			ext := []byte(randBytes(r, 20+r.Intn(40), nil))
			ks = append(ks, string(append(append([]byte{}, k...), append(ext, 0x10)...)))
			k = append(append(k, ext...), 0x80)
			if len(k) > 12000 {
				k = k[:0]
				k = append(k, byte(i), byte(i>>8), 0xee)
			}
		}
	case "fanout11":
		for i := 0; i < n; i++ {
			b := []byte{}
			x := i
			for l := 0; l < 5; l++ {
				b = append(b, byte(x%11)*23)
				x /= 11
			}
			ks = append(ks, string(b))
		}
	case "distinct-bitmaps":
		// every inner node a different set of half-byte labels
		for g := 0; g < n/4+1; g++ {
			set := r.Perm(16)[:2+r.Intn(9)]
			for _, nb := range set {
				ks = append(ks, string([]byte{byte(g >> 16), byte(g >> 8), byte(g), byte(nb << 4)}))
			}
		}
	case "pairs-21", "pairs-28", "pairs-36", "pairs-45", "pairs-55", "pairs-120":
		// a caterpillar cycling over a PALETTE of P label pairs: P = C(s,2) fills exactly the
		// popcount-2 slots of a short table of size s (s = 7..10: 21, 28, 36, 45)
		var P int
		fmt.Sscanf(fam, "pairs-%d", &P)
		pairs := [][2]byte{}
		for a := byte(0); a < 16; a++ {
			for b := a + 1; b < 16; b++ {
				pairs = append(pairs, [2]byte{a, b})
			}
		}
		r.Shuffle(len(pairs), func(i, j int) { pairs[i], pairs[j] = pairs[j], pairs[i] })
		pairs = pairs[:P]
		k := []byte{}
		for i := 0; i < n; i++ {
			p := pairs[i%len(pairs)]
			ks = append(ks, string(append(append([]byte{}, k...), p[0]<<4|0x1)))
			k = append(k, p[1]<<4|0x7, 0x55)
			if len(k) > 12000 {
				k = k[:0]
			}
		}
	case "distinct-pairs":
		// a caterpillar whose inner nodes carry pairwise different 2-label bitmaps (up to
		// 120 distinct pairs of the same popcount), every inner node behind a step
		pairs := [][2]byte{}
		for a := byte(0); a < 16; a++ {
			for b := a + 1; b < 16; b++ {
				pairs = append(pairs, [2]byte{a, b})
			}
		}
		r.Shuffle(len(pairs), func(i, j int) { pairs[i], pairs[j] = pairs[j], pairs[i] })
		k := []byte{}
		for i := 0; i < n; i++ {
			p := pairs[i%len(pairs)]
			// the leaf takes label p[0], the spine continues under p[1]; one filler byte = a step
			ks = append(ks, string(append(append([]byte{}, k...), p[0]<<4|0x1)))
			k = append(k, p[1]<<4|0x7, 0x55)
			if len(k) > 12000 {
				k = k[:0]
			}
		}
	case "random":
		for i := 0; i < n; i++ {
			ks = append(ks, randBytes(r, 1+r.Intn(30), nil))
		}
	case "long-random":
		for i := 0; i < n; i++ {
			ks = append(ks, randBytes(r, 1000+r.Intn(15000), []byte{0x00, 0xff, 0x55}))
		}
	case "ascii-words":
		for i := 0; i < n; i++ {
			ks = append(ks, randBytes(r, 3+r.Intn(12), []byte("abcdefghijklmnopqrstuvwxyz")))
		}
	}
	ks = uniq(ks)
	if len(ks) > n {
		ks = ks[:n]
	}
	return ks
}

func genSize(t *Tracer, m *Meta, tier string, seed int64) {
	r := rand.New(rand.NewSource(seed*573259391 + 17))
	quick := tier == "quick"
	emit := func(e Ev) {
		t.NextCase()
		m.Cases++
		m.Calls++
		m.Distinct++
		t.Emit(e)
	}
	// a dense sweep of key counts: size anomalies may live in narrow windows of n
	sizes := []int{}
	for n := 1; n <= 64; n++ {
		sizes = append(sizes, n)
	}
	for n := 72; n <= 1024; n += 8 {
		sizes = append(sizes, n+int(seed)%8)
	}
	sizes = append(sizes, 1500, 2000, 3000, 5000, 10000)
	if !quick {
		sizes = append(sizes, 20000, 30000, 50000, 100000)
	}
	fams := []string{"caterpillar-binary", "long-steps", "fanout11", "distinct-bitmaps", "distinct-pairs", "random", "ascii-words", "long-random",
		"pairs-21", "pairs-28", "pairs-36", "pairs-45", "pairs-55", "pairs-120"}
	for _, fam := range fams {
		for _, n := range sizes {
			if fam == "long-random" && n > 300 {
				continue
			}
			if fam == "caterpillar-binary" && n > 3000 {
				continue // key length grows with n: 16 KiB limit
			}
			if (fam == "distinct-pairs" || strings.HasPrefix(fam, "pairs-")) && n > 5000 {
				continue
			}
			if fam == "long-steps" && n > 10000 {
				continue
			}
			ks := r.Int63()
			keys := sizeFamilies(rand.New(rand.NewSource(ks)), fam, n)
			e := sizeEv(fam, keys)
			e["kseed"], e["nreq"] = fmt.Sprint(ks), n
			emit(e)
			m.class("family:" + fam)
		}
	}
	for _, name := range []string{"11vl5", "200kweb2", "50kl10", "50kvl10", "300vl50", "20kl10", "20kvl10", "empty", "1mvl5_10"} {
		func() {
			defer func() { recover() }()
			keys := testkeys.Load(name)
			if len(keys) > 250000 && quick {
				return
			}
			e := sizeEv("testkeys:"+name, keys)
			e["kseed"], e["nreq"] = "0", len(keys)
			emit(e)
			m.class("testkeys")
		}()
	}
	// pairs (K, P+K): lengthening keys without changing where they branch
	nPairs := 30
	if !quick {
		nPairs = 300
	}
	for i := 0; i < nPairs; i++ {
		fam := fams[r.Intn(8)]
		if fam == "long-random" {
			fam = "random"
		}
		n := []int{1, 2, 5, 30, 200, 1500}[r.Intn(6)]
		ks := r.Int63()
		plen := []int{1, 2, 3, 7, 8, 100, 1000, 4000, 16000}[r.Intn(9)]
		e := sizePairEv(fam, n, plen, ks)
		if e == nil {
			continue
		}
		plen = e["plen"].(int)
		emit(e)
		m.class("pair:plen=" + fmt.Sprint(plen))
	}
	m.Samples = append(m.Samples, sizeEv("fanout11", sizeFamilies(r, "fanout11", 12)))
}

func sizePairEv(fam string, n, plen int, ks int64) Ev {
	r := rand.New(rand.NewSource(ks))
	keys := sizeFamilies(r, fam, n)
	if maxLen(keys)+plen > 16384 {
		plen = 16384 - maxLen(keys)
		if plen < 1 {
			return nil
		}
	}
	p := randBytes(r, plen, nil)
	k2 := make([]string, len(keys))
	for j, k := range keys {
		k2[j] = p + k
	}
	a, da := sizeOf(keys)
	b, db := sizeOf(k2)
	e := Ev{"ev": "sizepair", "family": fam, "n": len(keys), "nreq": n, "plen": plen, "len1": a, "len2": b, "sameshape": 0, "kseed": fmt.Sprint(ks)}
	if da != nil && db != nil {
		e["sameshape"] = b2i(sameShape(da, db))
	}
	return e
}

// sameShape: equal node kinds and labels everywhere (steps may differ)
func sameShape(a, b *Decoded) bool {
	if len(a.Nodes) != len(b.Nodes) {
		return false
	}
	for i := range a.Nodes {
		x, y := a.Nodes[i], b.Nodes[i]
		if x.Inner != y.Inner || x.Big != y.Big || fmt.Sprint(x.Labels) != fmt.Sprint(y.Labels) {
			return false
		}
	}
	return true
}

// ============================ replay ===============================================

func miscReplay(t *Tracer, name string, e map[string]interface{}) bool {
	gi := func(k string) int { return int(e[k].(float64)) }
	r := rand.New(rand.NewSource(5))
	fromMag := func(it map[string]interface{}) uint64 {
		mag := toIntSlice(it["mag"])
		var u uint64
		for i := len(mag) - 1; i >= 0; i-- {
			u = u<<8 | uint64(mag[i])
		}
		if int(it["neg"].(float64)) == 1 {
			u = -u
		}
		return u
	}
	switch name {
	case "codec":
		for _, ie := range allIntEncs() {
			if ie.name == e["enc"].(string) {
				items := []interface{}{}
				for _, x := range e["items"].([]interface{}) {
					items = append(items, codecItem(ie.e, ie.mk(fromMag(x.(map[string]interface{}))), ie.w, junkBytes(r)))
				}
				t.Emit(Ev{"ev": "codec", "enc": ie.name, "w": ie.w, "signed": b2i(ie.signed), "items": items})
			}
		}
		return true
	case "codecs16", "codecbytes", "codecdummy", "codecstruct":
		// re-run the whole deterministic generator part is simplest: these are tiny
		m := newMeta("")
		t2 := t
		_ = m
		_ = t2
		replayCodecOther(t, name, e, r)
		return true
	case "arrbig":
		pr := e["params"].(map[string]interface{})
		var ks int64
		fmt.Sscan(pr["kseed"].(string), &ks)
		for _, k := range arrKinds {
			if k.name == pr["type"].(string) {
				t.Emit(arrBigEv(k, int(pr["n"].(float64)), ks))
			}
		}
		return true
	case "arr":
		typ := e["type"].(string)
		idx := []int32{}
		for _, x := range toIntSlice(e["index"]) {
			idx = append(idx, int32(x))
		}
		probes := []int32{}
		for _, x := range toIntSlice(e["probes"]) {
			probes = append(probes, int32(x))
		}
		elts := [][]byte{}
		for _, v := range e["elts"].([]interface{}) {
			elts = append(elts, []byte(fromInts(toIntSlice(v))))
		}
		if typ == "struct" {
			se := make([]arrStruct, len(elts))
			for i, b := range elts {
				se[i] = arrStruct{X: int32(binary.LittleEndian.Uint32(b)), Y: binary.LittleEndian.Uint16(b[4:])}
			}
			t.Emit(structArrEv(idx, se, probes))
			return true
		}
		for _, k := range arrKinds {
			if k.name == typ {
				t.Emit(arrEv(k, idx, elts, probes))
			}
		}
		return true
	case "size":
		fam := e["family"].(string)
		var keys []string
		if strings.HasPrefix(fam, "testkeys:") {
			keys = testkeys.Load(strings.TrimPrefix(fam, "testkeys:"))
		} else {
			var ks int64
			fmt.Sscan(e["kseed"].(string), &ks)
			keys = sizeFamilies(rand.New(rand.NewSource(ks)), fam, gi("nreq"))
		}
		ev := sizeEv(fam, keys)
		ev["kseed"], ev["nreq"] = e["kseed"], gi("nreq")
		t.Emit(ev)
		return true
	case "sizepair":
		var ks int64
		fmt.Sscan(e["kseed"].(string), &ks)
		if ev := sizePairEv(e["family"].(string), gi("nreq"), gi("plen"), ks); ev != nil {
			t.Emit(ev)
		}
		return true
	}
	return false
}

func replayCodecOther(t *Tracer, name string, e map[string]interface{}, r *rand.Rand) {
	switch name {
	case "codecdummy":
		d := encode.Dummy{}
		enc := d.Encode(12345)
		n, v := d.Decode([]byte{1, 2, 3})
		t.Emit(Ev{"ev": "codecdummy", "enclen": len(enc), "dn": n, "dnil": b2i(v == nil), "size": d.GetSize(1), "esize": d.GetEncodedSize(enc)})
	case "codecs16":
		items := []interface{}{}
		for _, x := range e["items"].([]interface{}) {
			s := fromInts(toIntSlice(x.(map[string]interface{})["s"]))
			it := Ev{"s": ints(s), "enc": []int{}, "dn": -1, "ds": []int{}, "size": -1, "esize": -1, "pan": ""}
			func() {
				defer func() {
					if rr := recover(); rr != nil {
						it["pan"] = fmt.Sprint(rr)
					}
				}()
				en := encode.String16{}
				enc := en.Encode(s)
				it["enc"], it["size"], it["esize"] = bints(enc), en.GetSize(s), en.GetEncodedSize(enc)
				n, d := en.Decode(append(append([]byte{}, enc...), junkBytes(r)...))
				it["dn"], it["ds"] = n, ints(d.(string))
			}()
			items = append(items, it)
		}
		t.Emit(Ev{"ev": "codecs16", "items": items})
	case "codecbytes":
		n := int(e["n"].(float64))
		items := []interface{}{}
		for _, x := range e["items"].([]interface{}) {
			v := []byte(fromInts(toIntSlice(x.(map[string]interface{})["v"])))
			it := Ev{"v": bints(v), "enc": []int{}, "dn": -1, "dv": []int{}, "size": -1, "esize": -1, "pan": ""}
			func() {
				defer func() {
					if rr := recover(); rr != nil {
						it["pan"] = fmt.Sprint(rr)
					}
				}()
				en := encode.Bytes{Size: n}
				enc := en.Encode(v)
				it["enc"], it["size"], it["esize"] = bints(enc), en.GetSize(v), en.GetEncodedSize(enc)
				dn, d := en.Decode(append(append([]byte{}, enc...), junkBytes(r)...))
				it["dn"], it["dv"] = dn, bints(d.([]byte))
			}()
			items = append(items, it)
		}
		t.Emit(Ev{"ev": "codecbytes", "n": n, "items": items})
	case "codecstruct":
		// values are regenerated from their logged type name and scalar leaves
		bigE := int(e["big"].(float64)) == 1
		var bo binary.ByteOrder = binary.LittleEndian
		if bigE {
			bo = binary.BigEndian
		}
		tn := "structV"
		if x, ok := e["type"].(string); ok {
			tn = x
		}
		typ := typeEncTypes[tn]
		te, _ := encode.NewTypeEncoderEndian(reflect.New(typ).Elem().Interface(), bo)
		items := []interface{}{}
		for _, x := range e["items"].([]interface{}) {
			fs := x.(map[string]interface{})["fields"].([]interface{})
			pv := reflect.New(typ).Elem()
			k := 0
			fillFields(pv, fs, &k)
			items = append(items, typeEncItem(te, pv.Interface(), r))
		}
		t.Emit(Ev{"ev": "codecstruct", "big": b2i(bigE), "type": tn, "items": items})
	}
}
