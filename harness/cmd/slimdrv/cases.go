package main

import (
	"sync/atomic"
	"time"
	"crypto/sha1"
	"encoding/binary"
	"fmt"
	"strconv"
	"strings"

	"github.com/openacid/slim/encode"
	"github.com/openacid/slim/trie"
)

// TrieCase is the input of one NewSlimTrie call, in harness terms.
type TrieCase struct {
	Keys []string `json:"-"`
	// Enc: "none" (nil values), "i8","i16","i32","i64","int","s16","b<N>","te" (TypeEncoder of struct{A int32;B uint16})
	Enc string `json:"enc"`
	// Vals[i] is the harness's OWN encoding of value i (independent of encode/*).
	Vals [][]byte `json:"-"`
	// Opt4: DedupValue, InnerPrefix, LeafPrefix, Complete; 0 false, 1 true, 2 nil pointer
	Opt4 [4]int `json:"opt"`
	// NoOpt: call NewSlimTrie without an Opt argument at all (Opt4 must be all 2)
	NoOpt bool `json:"noopt"`
	// legacyLayout: (concurrency family) the instance is loaded from a stream of this layout
	legacyLayout string
}

// optEnc is a user-defined variable-width encoder of the harness: a value is either
// absent (zero-length encoding) or 4 bytes.  The leaf array stores such values as a
// fixed-size array of the non-empty elements plus a presence bitmap.
type optEnc struct{}

func (optEnc) Encode(d interface{}) []byte { return append([]byte{}, d.([]byte)...) }
func (optEnc) Decode(b []byte) (int, interface{}) {
	if len(b) < 4 {
		return 0, []byte{}
	}
	return 4, append([]byte{}, b[:4]...)
}
func (optEnc) GetSize(d interface{}) int { return len(d.([]byte)) }
func (optEnc) GetEncodedSize(b []byte) int {
	if len(b) < 4 {
		return 0
	}
	return 4
}

type teVal struct {
	A int32
	B uint16
}

func (c *TrieCase) HasVals() bool { return c.Enc != "none" }

func (c *TrieCase) encoder() encode.Encoder {
	switch {
	case c.Enc == "none":
		return nil
	case c.Enc == "i8":
		return encode.I8{}
	case c.Enc == "i16":
		return encode.I16{}
	case c.Enc == "i32":
		return encode.I32{}
	case c.Enc == "i64":
		return encode.I64{}
	case c.Enc == "int":
		return encode.Int{}
	case c.Enc == "opt4":
		return optEnc{}
	case c.Enc == "s16":
		return encode.String16{}
	case c.Enc == "te":
		e, err := encode.NewTypeEncoder(teVal{})
		if err != nil {
			panic(err)
		}
		return e
	case strings.HasPrefix(c.Enc, "b"):
		n, err := strconv.Atoi(c.Enc[1:])
		if err != nil {
			panic(err)
		}
		return encode.Bytes{Size: n}
	}
	panic("unknown encoder " + c.Enc)
}

// typedVals converts the harness encoding into the typed slice the API takes.
func (c *TrieCase) typedVals() interface{} {
	n := len(c.Vals)
	switch {
	case c.Enc == "none":
		return nil
	case c.Enc == "i8":
		r := make([]int8, n)
		for i, b := range c.Vals {
			r[i] = int8(b[0])
		}
		return r
	case c.Enc == "i16":
		r := make([]int16, n)
		for i, b := range c.Vals {
			r[i] = int16(binary.LittleEndian.Uint16(b))
		}
		return r
	case c.Enc == "i32":
		r := make([]int32, n)
		for i, b := range c.Vals {
			r[i] = int32(binary.LittleEndian.Uint32(b))
		}
		return r
	case c.Enc == "i64":
		r := make([]int64, n)
		for i, b := range c.Vals {
			r[i] = int64(binary.LittleEndian.Uint64(b))
		}
		return r
	case c.Enc == "int":
		r := make([]int, n)
		for i, b := range c.Vals {
			r[i] = int(int64(binary.LittleEndian.Uint64(b)))
		}
		return r
	case c.Enc == "opt4":
		r := make([][]byte, n)
		for i, b := range c.Vals {
			r[i] = append([]byte{}, b...)
		}
		return r
	case c.Enc == "s16":
		r := make([]string, n)
		for i, b := range c.Vals {
			r[i] = string(b[2:])
		}
		return r
	case c.Enc == "te":
		r := make([]teVal, n)
		for i, b := range c.Vals {
			r[i] = teVal{A: int32(binary.LittleEndian.Uint32(b)), B: binary.LittleEndian.Uint16(b[4:])}
		}
		return r
	case strings.HasPrefix(c.Enc, "b"):
		r := make([][]byte, n)
		for i, b := range c.Vals {
			r[i] = append([]byte{}, b...)
		}
		return r
	}
	panic("unknown encoder " + c.Enc)
}

// valBytes re-encodes a value returned by the library with the harness's own
// encoding; nil -> the NilV sentinel.
func valBytes(v interface{}) []int {
	switch x := v.(type) {
	case nil:
		return nilV
	case int8:
		return []int{int(byte(x))}
	case int16:
		b := make([]byte, 2)
		binary.LittleEndian.PutUint16(b, uint16(x))
		return bints(b)
	case int32:
		b := make([]byte, 4)
		binary.LittleEndian.PutUint32(b, uint32(x))
		return bints(b)
	case int64:
		b := make([]byte, 8)
		binary.LittleEndian.PutUint64(b, uint64(x))
		return bints(b)
	case int:
		b := make([]byte, 8)
		binary.LittleEndian.PutUint64(b, uint64(x))
		return bints(b)
	case string:
		b := []byte{byte(len(x) >> 8), byte(len(x))}
		return bints(append(b, x...))
	case []byte:
		return bints(x)
	case teVal:
		b := make([]byte, 6)
		binary.LittleEndian.PutUint32(b, uint32(x.A))
		binary.LittleEndian.PutUint16(b[4:], x.B)
		return bints(b)
	}
	return []int{-2} // unknown type: never equals a supplied value
}

func optPtr(x int) *bool {
	if x == 2 {
		return nil
	}
	return trie.Bool(x == 1)
}

func (c *TrieCase) opt() trie.Opt {
	if c.sharedOptPointers() {
		// a caller may well write `f := false; Opt{DedupValue: &f, InnerPrefix: &f}`: fields
		// with equal explicit values share ONE bool (seed C08-e: a library that writes a
		// default through one pointer changes the other option too)
		var shared [2]*bool
		p := func(v int) *bool {
			if v == 2 {
				return nil
			}
			if shared[v] == nil {
				b := v == 1
				shared[v] = &b
			}
			return shared[v]
		}
		return trie.Opt{DedupValue: p(c.Opt4[0]), InnerPrefix: p(c.Opt4[1]), LeafPrefix: p(c.Opt4[2]), Complete: p(c.Opt4[3])}
	}
	return trie.Opt{DedupValue: optPtr(c.Opt4[0]), InnerPrefix: optPtr(c.Opt4[1]),
		LeafPrefix: optPtr(c.Opt4[2]), Complete: optPtr(c.Opt4[3])}
}

// sharedOptPointers: a function of the input (so that a replay makes the same choice)
func (c *TrieCase) sharedOptPointers() bool {
	h := sha1.New()
	for _, k := range c.Keys {
		h.Write([]byte(k))
		h.Write([]byte{1})
	}
	return (h.Sum(nil)[1]+byte(c.Opt4[0]+c.Opt4[1]*3+c.Opt4[2]*9+c.Opt4[3]*27))%3 != 0
}

// errClass maps an error of the library to the classes the spec knows.
func errClass(err error) string {
	if err == nil {
		return ""
	}
	// errors.Cause unwrapping without importing the errors package: compare text
	msg := err.Error()
	if strings.Contains(msg, trie.ErrKeyOutOfOrder.Error()) {
		return "order"
	}
	if strings.Contains(msg, trie.ErrIncompatible.Error()) {
		return "incompatible"
	}
	if strings.Contains(msg, "too long") {
		return "toolong"
	}
	return "other"
}

// normalise keeps the case inside the domain the properties speak about: with the
// harness's opt4 encoder at least one value has a non-empty encoding (if EVERY encoding
// is empty the library stores no leaf array at all and answers nil, like encode.Dummy --
// "no values", not a value).
func (c *TrieCase) normalise() {
	if c.Enc != "opt4" || len(c.Vals) == 0 {
		return
	}
	for _, v := range c.Vals {
		if len(v) > 0 {
			return
		}
	}
	c.Vals[len(c.Vals)-1] = []byte{0xde, 0xad, 0xbe, 0xef}
}

// Build calls the real NewSlimTrie.  Panics are results, not crashes.
func (c *TrieCase) Build() (st *trie.SlimTrie, ec string, pan string) {
	c.normalise()
	defer func() {
		if r := recover(); r != nil {
			st, ec, pan = nil, "", fmt.Sprint(r)
		}
	}()
	var err error
	keys := append([]string{}, c.Keys...)
	if c.NoOpt {
		watched(func() { st, err = trie.NewSlimTrie(c.encoder(), keys, c.typedVals()) })
	} else {
		watched(func() { st, err = trie.NewSlimTrie(c.encoder(), keys, c.typedVals(), c.opt()) })
	}
	if err != nil {
		return nil, errClass(err), ""
	}
	return st, "", ""
}

// NewEv is the trace event of a construction.
func (c *TrieCase) NewEv(ec, pan string) Ev {
	c.normalise()
	vals := [][]int{}
	for _, v := range c.Vals {
		vals = append(vals, bints(v))
	}
	return Ev{"ev": "new", "keys": intsList(c.Keys), "vals": vals, "hasvals": c.HasVals(),
		"enc": c.Enc, "opt": c.Opt4[:], "noopt": c.NoOpt, "err": ec, "pan": pan}
}

// usedReceiver decides, as a function of the case alone (so that a replay makes the
// same choice), whether the loaded trie of this case is loaded into a fresh instance or
// into one that has held and served another index before.
func (c *TrieCase) usedReceiver() bool {
	h := sha1.New()
	for _, k := range c.Keys {
		h.Write([]byte(k))
		h.Write([]byte{0})
	}
	return h.Sum(nil)[0]&1 == 1
}

// warmReceiver returns an instance that holds a DIFFERENT non-empty index built with the
// same encoder and options and that has answered every kind of read call (so that
// anything the library memoises per instance is filled in), or nil.
func warmReceiver(c *TrieCase) (st *trie.SlimTrie) {
	defer func() {
		if r := recover(); r != nil {
			st = nil
		}
	}()
	w := &TrieCase{Keys: []string{"", "A", "Ab", "Abc", "B", "\xff\xff"}, Enc: c.Enc, Opt4: c.Opt4, NoOpt: c.NoOpt}
	if c.HasVals() && len(c.Vals) > 0 {
		for i := range w.Keys {
			w.Vals = append(w.Vals, c.Vals[i%len(c.Vals)])
		}
	}
	st, _, _ = w.Build()
	if st == nil {
		return nil
	}
	func() {
		defer func() { recover() }()
		_ = st.String()
		_ = st.Stat()
		_, _ = st.Marshal()
		for _, q := range []string{"", "A", "Abc", "Az", "\xff\xff", "zz"} {
			observe(w, st, q)
		}
		st.ScanFrom("", true, true, func(k, v []byte) bool { return true })
	}()
	return st
}

// Reload marshals st and unmarshals the bytes into another instance: a new one, or
// (for about half of the cases) one that served a different index before.
func Reload(c *TrieCase, st *trie.SlimTrie) (st2 *trie.SlimTrie, ec string, pan string) {
	defer func() {
		if r := recover(); r != nil {
			st2, ec, pan = nil, "", fmt.Sprint(r)
		}
	}()
	b, err := st.Marshal()
	if err != nil {
		return nil, "other", ""
	}
	if c.usedReceiver() {
		st2 = warmReceiver(c)
	}
	if st2 == nil {
		st2, err = trie.NewSlimTrie(c.encoder(), nil, nil)
	}
	if err != nil {
		return nil, errClass(err), ""
	}
	watched(func() { err = st2.Unmarshal(b) })
	if err != nil {
		return nil, errClass(err), ""
	}
	return st2, "", ""
}

// ---- observations -----------------------------------------------------------

type lookupObs struct {
	ID   int
	Get  []interface{} // [found, val]
	RGet []interface{}
	Srch [][]int
	GetI []interface{} // typed getter [found, val]; [-1, NilV] if not applicable
	Pan  string
}

func observe(c *TrieCase, st *trie.SlimTrie, q string) (o lookupObs) {
	o.ID = -9
	o.Get = []interface{}{-9, nilV}
	o.RGet = []interface{}{-9, nilV}
	o.Srch = [][]int{{-9}, {-9}, {-9}}
	o.GetI = []interface{}{-1, nilV}
	call := func(name string, f func()) {
		defer func() {
			if r := recover(); r != nil {
				if o.Pan != "" {
					o.Pan += "; "
				}
				o.Pan += name + ": " + fmt.Sprint(r)
			}
		}()
		watched(f)
	}
	call("GetID", func() { o.ID = int(st.GetID(q)) })
	call("Get", func() {
		v, f := st.Get(q)
		o.Get = []interface{}{b2i(f), valBytes(v)}
	})
	call("RangeGet", func() {
		v, f := st.RangeGet(q)
		o.RGet = []interface{}{b2i(f), valBytes(v)}
	})
	call("Search", func() {
		l, e, r := st.Search(q)
		o.Srch = [][]int{valBytes(l), valBytes(e), valBytes(r)}
	})
	switch c.Enc {
	case "i8":
		call("GetI8", func() {
			v, f := st.GetI8(q)
			o.GetI = []interface{}{b2i(f), valBytes(v)}
		})
	case "i16":
		call("GetI16", func() {
			v, f := st.GetI16(q)
			o.GetI = []interface{}{b2i(f), valBytes(v)}
		})
	case "i32":
		call("GetI32", func() {
			v, f := st.GetI32(q)
			o.GetI = []interface{}{b2i(f), valBytes(v)}
		})
	case "i64":
		call("GetI64", func() {
			v, f := st.GetI64(q)
			o.GetI = []interface{}{b2i(f), valBytes(v)}
		})
	}
	// a typed getter reports (0, false) on a miss; Get reports (nil, false).
	// Normalise the miss value so that the two are comparable.
	if len(o.GetI) == 2 {
		if f, ok := o.GetI[0].(int); ok && f == 0 {
			o.GetI[1] = nilV
		}
	}
	return
}

// ObsEv observes a batch of queries.  kind "k": the queries are exactly the keys
// of the case, in order (qs omitted); kind "q": arbitrary queries with floor
// witnesses fp (position among the retained keys of the greatest one <= q; 0 = none).
func ObsEv(c *TrieCase, st *trie.SlimTrie, kind string, qs []string, fp []int) Ev {
	ids := make([]int, len(qs))
	gets := make([]interface{}, len(qs))
	rgets := make([]interface{}, len(qs))
	srch := make([]interface{}, len(qs))
	geti := make([]interface{}, len(qs))
	pans := []interface{}{}
	for i, q := range qs {
		o := observe(c, st, q)
		ids[i], gets[i], rgets[i], srch[i], geti[i] = o.ID, o.Get, o.RGet, o.Srch, o.GetI
		if o.Pan != "" {
			pans = append(pans, []interface{}{i + 1, o.Pan})
		}
	}
	e := Ev{"ev": "obs" + kind, "ids": ids, "gets": gets, "rgets": rgets, "srch": srch, "geti": geti, "pans": pans}
	if kind == "q" {
		e["qs"] = intsList(qs)
		e["fp"] = fp
	}
	return e
}


// ---- calls that do not return ------------------------------------------------------
// A call into the library that does not come back (a lookup looping on a half-loaded
// index, say) is an OBSERVATION - the properties demand termination - not a reason to lose
// the whole run to the driver's timeout.  watched runs f in its own goroutine and stops
// waiting after hangLimit; it then panics in the CALLER's goroutine with a text starting
// with "HANG", which the caller's recover records like any other panic.  The abandoned
// goroutine keeps spinning until the process ends; after three hangs no further call is
// started (they report "HANG: skipped").
const hangLimit = 25 * time.Second

var hangCount int32

func watched(f func()) {
	if atomic.LoadInt32(&hangCount) >= 3 {
		panic("HANG: skipped (the library stopped returning from calls earlier in this run)")
	}
	done := make(chan interface{}, 1)
	go func() {
		defer func() { done <- recover() }()
		f()
	}()
	t := time.NewTimer(hangLimit)
	select {
	case r := <-done:
		t.Stop()
		if r != nil {
			panic(r)
		}
	case <-t.C:
		atomic.AddInt32(&hangCount, 1)
		panic(fmt.Sprintf("HANG: the call did not return within %v", hangLimit))
	}
}
