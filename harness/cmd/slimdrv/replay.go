package main

import (
	"bufio"
	"encoding/json"
	"fmt"
	"math/rand"
	"os"

	"github.com/openacid/slim/trie"
)

// Replay re-executes the INPUTS of recorded events against the real library and
// writes the freshly observed events; the recorded results are ignored.  The
// driver then lets the trace specification judge the new trace: a violation is
// reported only if it shows up again.

func toIntSlice(x interface{}) []int {
	a, _ := x.([]interface{})
	r := make([]int, len(a))
	for i, v := range a {
		r[i] = int(v.(float64))
	}
	return r
}

func toStrings(x interface{}) []string {
	a, _ := x.([]interface{})
	r := make([]string, len(a))
	for i, v := range a {
		r[i] = fromInts(toIntSlice(v))
	}
	return r
}

func caseFromNew(e map[string]interface{}) *TrieCase {
	c := &TrieCase{Keys: toStrings(e["keys"]), Enc: e["enc"].(string)}
	if c.Enc != "none" {
		for _, v := range e["vals"].([]interface{}) {
			c.Vals = append(c.Vals, []byte(fromInts(toIntSlice(v))))
		}
	}
	o := toIntSlice(e["opt"])
	copy(c.Opt4[:], o)
	if b, ok := e["noopt"].(bool); ok {
		c.NoOpt = b
	}
	return c
}

func readEvents(path string) []map[string]interface{} {
	f, err := os.Open(path)
	if err != nil {
		panic(err)
	}
	defer f.Close()
	var doc struct {
		Events []map[string]interface{} `json:"events"`
	}
	dec := json.NewDecoder(bufio.NewReaderSize(f, 1<<20))
	if err := dec.Decode(&doc); err != nil {
		panic(err)
	}
	return doc.Events
}

var lastRenderBig string

func replay(in, out string) {
	evs := readEvents(in)
	t := NewTracer(out, 1)
	t.NextCase()
	var c *TrieCase
	var st *trie.SlimTrie
	rs := &replayState{}
	for _, e := range evs {
		name := e["ev"].(string)
		switch name {
		case "new":
			c = caseFromNew(e)
			var ec, pan string
			st, ec, pan = c.Build()
			ne := c.NewEv(ec, pan)
			if d, ok := e["dis"]; ok {
				ne["dis"] = d
			}
			t.Emit(ne)
		case "load":
			if st == nil {
				continue
			}
			st2, ec, pan := Reload(c, st)
			t.Emit(Ev{"ev": "load", "err": ec, "pan": pan})
			st = st2
		case "table":
			if st == nil {
				continue
			}
			if b, err := st.Marshal(); err == nil {
				if sl, err := ParseSlim(b); err == nil {
					if d, err := Decode(sl); err == nil {
						t.Emit(TableEv(d))
					} else {
						t.Emit(Ev{"ev": "tableerr", "msg": err.Error()})
					}
				}
			}
		case "proto":
			if st != nil {
				if b, err := st.Marshal(); err == nil {
					if sl, err := ParseSlim(b); err == nil {
						t.Emit(ProtoEv(sl, b))
					}
				}
			}
		case "stat":
			if st != nil {
				t.Emit(StatEv(st))
			}
		case "obsk":
			if st != nil {
				t.Emit(ObsEv(c, st, "k", c.Keys, nil))
			}
		case "obsbig":
			pr := e["params"].(map[string]interface{})
			var ks int64
			fmt.Sscan(pr["kseed"].(string), &ks)
			if lay, ok := pr["layout"].(string); ok && lay != "" {
				runBigLegacyCase(t, newMeta(""), pr["kind"].(string), int(pr["nreq"].(float64)), ks, lay)
			} else { // re-emits both phases (fresh and reloaded)
				bc, nq := bigCase(pr["kind"].(string), int(pr["nreq"].(float64)), ks, pr["prop"].(string))
				runBigCase(t, newMeta(""), rand.New(rand.NewSource(ks+1)), bc, nq, "replay", Ev{"kind": pr["kind"], "nreq": pr["nreq"], "kseed": pr["kseed"], "prop": pr["prop"]})
			}
		case "bigfail":
			// a large case that could not be built or loaded: re-run it from its parameters
			if pr, ok := e["params"].(map[string]interface{}); ok {
				if lay, ok := pr["layout"].(string); ok && lay != "" {
					var ks int64
					fmt.Sscan(pr["kseed"].(string), &ks)
					runBigLegacyCase(t, newMeta(""), pr["kind"].(string), int(pr["nreq"].(float64)), ks, lay)
				}
			}
		case "scanbig":
			pr := e["params"].(map[string]interface{})
			if key := fmt.Sprint(pr["kind"], pr["n"], pr["kseed"]); key != lastScanBig { // re-emits both phases
				lastScanBig = key
				var ks int64
				fmt.Sscan(pr["kseed"].(string), &ks)
				runScanBig(t, newMeta(""), pr["kind"].(string), int(pr["n"].(float64)), ks)
			}
		case "renderbig":
			pr := e["params"].(map[string]interface{})
			if key := fmt.Sprint(pr["kind"], pr["nreq"], pr["kseed"]); key != lastRenderBig { // re-emits both phases (fresh and reloaded)
				lastRenderBig = key
				var ks int64
				fmt.Sscan(pr["kseed"].(string), &ks)
				runRenderBig(t, newMeta(""), pr["kind"].(string), int(pr["nreq"].(float64)), ks)
			}
		case "calibration":
			dir := "/repo/trie/testdata"
			if d := os.Getenv("SLIM_TESTDATA"); d != "" {
				dir = d
			}
			cal := calibrateLegacy(dir)
			t.Emit(Ev{"ev": "calibration", "v3ok": cal.V3OK, "v3bad": cal.V3Bad, "v10ok": cal.V10OK, "v10bad": cal.V10Bad})
		case "legacy":
			c = caseFromNew(e)
			layout := e["layout"].(string)
			b, ok := legacyBytes(c, layout)
			if !ok {
				continue
			}
			var ec, pan string
			st, ec, pan = loadLegacy(c, b, false)
			t.Emit(legacyEv(c, layout, b, ec, pan))
		case "index":
			keys := toStrings(e["keys"])
			offs := []int64{}
			for _, v := range e["offs"].([]interface{}) {
				b := []byte(fromInts(toIntSlice(v)))
				var o uint64
				for i := 7; i >= 0; i-- {
					o = o<<8 | uint64(b[i])
				}
				offs = append(offs, int64(o))
			}
			t.Emit(indexEv(keys, offs, e["mode"].(string), int(e["block"].(float64)), toStrings(e["qs"])))
		case "mcheck":
			if st != nil {
				t.Emit(McheckEv(c, st))
			}
		case "render":
			if st != nil {
				t.Emit(RenderEv(c, st))
			}
		case "modes":
			c0 := caseFromNew(map[string]interface{}{"keys": e["keys"], "vals": e["vals"], "enc": e["enc"], "opt": []interface{}{0.0, 0.0, 0.0, 0.0}})
			t.Emit(modesEv(c0, toStrings(e["qs"])))
		case "obsq":
			if st != nil {
				t.Emit(ObsEv(c, st, "q", toStrings(e["qs"]), toIntSlice(e["fp"])))
			}
		default:
			if !replayOther(t, rs, name, e, &c, &st) {
				fmt.Fprintln(os.Stderr, "replay: unknown event", name)
				os.Exit(2)
			}
		}
	}
	t.Close()
}

// replayState carries what later families need between events.
type replayState struct {
	vars  map[string]interface{}
	iters *iterSet
	hist  *histReplay
}
