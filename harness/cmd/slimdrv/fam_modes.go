package main

import (
	"math/rand"
	"sort"
	"strings"
)

// C13: one key/value list built in all 16 option combinations; the Get answers of
// all 16 tries for the same queries go into one event.

func modesEv(c0 *TrieCase, qs []string) Ev {
	ans := make([]interface{}, 16)
	for m := 0; m < 16; m++ {
		c := &TrieCase{Keys: c0.Keys, Enc: c0.Enc, Vals: c0.Vals, Opt4: [4]int{m & 1, m >> 1 & 1, m >> 2 & 1, m >> 3 & 1}}
		st, ec, pan := c.Build()
		gets := make([]interface{}, len(qs))
		for i := range gets {
			gets[i] = []interface{}{-9, nilV}
		}
		if st != nil {
			for i, q := range qs {
				o := observe(c, st, q)
				gets[i] = o.Get
				if o.Pan != "" && pan == "" {
					pan = "query: " + o.Pan
				}
			}
		}
		ans[m] = Ev{"err": ec, "pan": pan, "gets": gets}
	}
	fp := make([][]int, 2)
	for d := 0; d < 2; d++ {
		c := &TrieCase{Keys: c0.Keys, Enc: c0.Enc, Vals: c0.Vals, Opt4: [4]int{d, 0, 0, 0}}
		fp[d] = floorWitness(c, qs)
	}
	vals := [][]int{}
	for _, v := range c0.Vals {
		vals = append(vals, bints(v))
	}
	return Ev{"ev": "modes", "keys": intsList(c0.Keys), "vals": vals, "hasvals": c0.HasVals(), "enc": c0.Enc,
		"qs": intsList(qs), "fp": fp, "ans": ans}
}

func runModesCase(t *Tracer, m *Meta, c *TrieCase, qs []string) {
	t.NextCase()
	m.countCase(c)
	t.Emit(modesEv(c, qs))
	m.Calls += 16 * len(qs)
	if len(m.Samples) < 3 && len(c.Keys) >= 2 && len(c.Keys) <= 6 {
		m.Samples = append(m.Samples, Ev{"keys": intsList(c.Keys), "enc": c.Enc, "queries": len(qs), "tries": 16})
	}
}

func genModes(t *Tracer, m *Meta, tier string, seed int64) {
	r := rand.New(rand.NewSource(seed*15485863 + 13))
	quick := tier == "quick"
	budgetU := 1600
	if !quick {
		budgetU = 16000
	}
	for ui, u := range universes {
		strs := u.Strings()
		total := u.EachKeyList(1<<30, 1, func([]string) {})
		stride := total/(budgetU/len(universes)) + 1
		off := int(seed+int64(ui)*5) % stride
		u.EachKeyList(stride, off, func(keys []string) {
			n := len(keys)
			enc := "i32"
			if r.Intn(5) == 0 {
				enc = "none"
			}
			var vals [][]byte
			if enc != "none" {
				pat := uint64(0)
				if n > 1 {
					pat = uint64(r.Intn(1 << uint(n-1)))
				}
				vals = valsFromPattern(enc, n, pat, 0)
				if n > 2 && r.Intn(2) == 0 {
					vals = valsRecurring(r, enc, n, 2+r.Intn(2), 0)
				}
			}
			runModesCase(t, m, &TrieCase{Keys: keys, Enc: enc, Vals: vals}, strs)
		})
		m.class("universe:" + u.Name)
	}
	nMed, maxN := 30, 300
	if !quick {
		nMed, maxN = 150, 1200
	}
	for i := 0; i < nMed; i++ {
		fam := familyNames[i%len(familyNames)]
		n := 2 + r.Intn(maxN)
		if i%3 == 0 {
			n = 2 + r.Intn(40)
		}
		keys := genKeys(r, fam, n, 1+r.Intn(16))
		if len(keys) > maxN {
			keys = keys[:maxN]
		}
		enc := pickEnc(r, "C13")
		c := &TrieCase{Keys: keys, Enc: enc, Vals: mkVals(r, "C13", enc, len(keys))}
		qs := querySet(r, keys, 150)
		// make sure a good share of the queries are keys, incl. de-duplicated ones
		for j := 0; j < 40 && j < len(keys); j++ {
			qs = append(qs, keys[r.Intn(len(keys))])
		}
		sort.Strings(qs)
		qs = uniq(qs)
		runModesCase(t, m, c, qs)
		m.class("family:" + fam)
	}
	// shared runs around the capacity of a step counter, followed by a 12-way fan-out:
	// the step modes either refuse (no claim) or must agree with the prefix modes
	for _, L := range []int{65534, 65536, 98304} {
		common := strings.Repeat(string([]byte{byte(0x41 + r.Intn(20))}), L/2)
		keys := []string{}
		for i := 0; i < 12; i++ {
			keys = append(keys, common+string([]byte{byte(10 + i*20)}))
		}
		enc := []string{"i32", "none"}[r.Intn(2)]
		c := &TrieCase{Keys: keys, Enc: enc}
		if enc != "none" {
			c.Vals = valsFromPattern(enc, len(keys), 0, 1)
		}
		runModesCase(t, m, c, append(append([]string{}, keys...), common, common+"\x00", "x"))
		m.class("long-run+fanout12")
	}
	for _, nc := range specialShapes(r, "i32", [4]int{2, 2, 2, 2}, 3, seed) {
		c := nc.C
		qs := querySet(r, c.Keys, 100)
		for j := 0; j < 60 && j < len(c.Keys); j++ {
			qs = append(qs, c.Keys[r.Intn(len(c.Keys))])
		}
		sort.Strings(qs)
		runModesCase(t, m, c, uniq(qs))
		m.class(nc.Name)
	}
	for _, keys := range [][]string{{}, {""}, {"a"}} {
		enc := pickEnc(r, "C13")
		runModesCase(t, m, &TrieCase{Keys: keys, Enc: enc, Vals: mkVals(r, "C13", enc, len(keys))}, []string{"", "a", "b", "\x00"})
	}
}
