package main

import (
	"encoding/binary"
	"fmt"
	"math/rand"
	"sort"
)

// ---------------------------------------------------------------------------
// exhaustive universes (DESIGN.md section 5)

type Universe struct {
	Name    string
	Alpha   []byte
	MaxLen  int
	MaxKeys int
	strs    []string
}

var universes = []*Universe{
	{Name: "U-nib", Alpha: []byte{0x00, 0x01, 0x10, 0x80, 0xff}, MaxLen: 2, MaxKeys: 4},
	{Name: "U-deep", Alpha: []byte{0x00, 0xff}, MaxLen: 4, MaxKeys: 4},
	{Name: "U-wide", Alpha: []byte{0x00, 0x0f, 0x10, 0x7f, 0x80, 0xf0, 0xff}, MaxLen: 1, MaxKeys: 5},
	{Name: "U-five", Alpha: []byte{0x61, 0x62}, MaxLen: 3, MaxKeys: 5},
}

func (u *Universe) Strings() []string {
	if u.strs != nil {
		return u.strs
	}
	cur := []string{""}
	all := []string{""}
	for l := 1; l <= u.MaxLen; l++ {
		nxt := []string{}
		for _, s := range cur {
			for _, c := range u.Alpha {
				nxt = append(nxt, s+string([]byte{c}))
			}
		}
		all = append(all, nxt...)
		cur = nxt
	}
	sort.Strings(all)
	u.strs = all
	return all
}

// EachKeyList calls f for every ascending key list of 0..MaxKeys strings whose
// ordinal (in enumeration order) is congruent to off modulo stride.
func (u *Universe) EachKeyList(stride, off int, f func(keys []string)) (total int) {
	strs := u.Strings()
	idx := []int{}
	ord := 0
	var rec func(start int)
	rec = func(start int) {
		if ord%stride == off%stride {
			ks := make([]string, len(idx))
			for i, x := range idx {
				ks[i] = strs[x]
			}
			f(ks)
		}
		ord++
		if len(idx) == u.MaxKeys {
			return
		}
		for i := start; i < len(strs); i++ {
			idx = append(idx, i)
			rec(i + 1)
			idx = idx[:len(idx)-1]
		}
	}
	rec(0)
	return ord
}

// ---------------------------------------------------------------------------
// values

func le(v uint64, n int) []byte {
	b := make([]byte, 8)
	binary.LittleEndian.PutUint64(b, v)
	return b[:n]
}

// encodeVal encodes the abstract value number x for encoder enc (harness-native).
func encodeVal(enc string, x int64) []byte {
	switch enc {
	case "i8":
		return le(uint64(x), 1)
	case "i16":
		return le(uint64(x), 2)
	case "i32":
		return le(uint64(x), 4)
	case "i64", "int":
		return le(uint64(x), 8)
	case "s16":
		// variable width: length depends on the value
		s := fmt.Sprintf("v%d", x)
		if x%5 == 0 {
			s = ""
		}
		if x%7 == 3 {
			s += "-long-long-value"
		}
		return append([]byte{byte(len(s) >> 8), byte(len(s))}, s...)
	case "opt4":
		// every third value is absent (empty encoding), the others are 4 bytes
		if x%3 == 0 {
			return []byte{}
		}
		return le(uint64(x*2654435761), 4)
	case "te":
		b := make([]byte, 6)
		binary.LittleEndian.PutUint32(b, uint32(x*2654435761))
		binary.LittleEndian.PutUint16(b[4:], uint16(x))
		return b
	}
	if enc[0] == 'b' {
		var n int
		fmt.Sscanf(enc[1:], "%d", &n)
		b := make([]byte, n)
		for i := range b {
			b[i] = byte(x >> uint(8*(i%8)))
			if i >= 8 {
				b[i] ^= byte(i)
			}
		}
		return b
	}
	panic("encodeVal: " + enc)
}

// runPattern -> value numbers: bit i-1 of pat set = key i repeats the value of key i-1
func valsFromPattern(enc string, n int, pat uint64, base int64) [][]byte {
	vals := make([][]byte, n)
	x := base
	for i := 0; i < n; i++ {
		if i > 0 && pat>>(uint(i-1)&63)&1 == 0 {
			x++
		}
		vals[i] = encodeVal(enc, x)
	}
	return vals
}

// values from a small recurring domain: a value may come back after a different one
// (the run-length generators only count upwards)
func valsRecurring(r *rand.Rand, enc string, n, domain int, base int64) [][]byte {
	vals := make([][]byte, n)
	cur := int64(r.Intn(domain))
	for i := 0; i < n; i++ {
		if i == 0 || r.Intn(3) != 0 {
			cur = int64(r.Intn(domain))
		}
		vals[i] = encodeVal(enc, base+cur)
	}
	return vals
}

// variable-width values whose sizes are small and irregular (0..4 payload bytes): the
// leaf array must choose between its fixed-size and its positional layout, and sums
// of sizes coincide with multiples of single sizes often
func valsSmallStrings(r *rand.Rand, n int) [][]byte {
	vals := make([][]byte, n)
	for i := range vals {
		l := r.Intn(5)
		b := []byte{0, byte(l)}
		for j := 0; j < l; j++ {
			b = append(b, byte('a'+(i+j)%26))
		}
		vals[i] = b
	}
	return vals
}

// variable-width values of widely different sizes (0..600 payload bytes): the positional
// leaf array then spans many bitmap words and several select-index entries
func valsLongStrings(r *rand.Rand, n int) [][]byte {
	vals := make([][]byte, n)
	for i := range vals {
		l := r.Intn(40)
		switch r.Intn(6) {
		case 0:
			l = 0
		case 1:
			l = 200 + r.Intn(400)
		case 2:
			l = 63 + r.Intn(3)
		}
		b := []byte{byte(l >> 8), byte(l)}
		for j := 0; j < l; j++ {
			b = append(b, byte('a'+(i*7+j)%26))
		}
		vals[i] = b
	}
	return vals
}

// random run-length layout with runs of 1..maxRun
func valsRuns(r *rand.Rand, enc string, n, maxRun int, base int64) [][]byte {
	vals := make([][]byte, n)
	x := base
	i := 0
	for i < n {
		run := 1 + r.Intn(maxRun)
		for j := 0; j < run && i < n; j++ {
			vals[i] = encodeVal(enc, x)
			i++
		}
		x++
	}
	return vals
}

// ---------------------------------------------------------------------------
// medium key-set families

var familyNames = []string{"uniform", "twosym", "prefixes", "wide", "palette", "caterpillar", "ascii", "nibdiv", "paletteDeep", "samehigh", "longtail", "mixed"}

func uniq(ks []string) []string {
	sort.Strings(ks)
	out := ks[:0]
	for i, k := range ks {
		if i == 0 || k != ks[i-1] {
			out = append(out, k)
		}
	}
	return out
}

func randBytes(r *rand.Rand, n int, alpha []byte) string {
	b := make([]byte, n)
	for i := range b {
		if alpha == nil {
			b[i] = byte(r.Intn(256))
		} else {
			b[i] = alpha[r.Intn(len(alpha))]
		}
	}
	return string(b)
}

// genKeys returns a strictly ascending key list of roughly n keys.
func genKeys(r *rand.Rand, family string, n, maxLen int) []string {
	ks := []string{}
	switch family {
	case "uniform":
		for i := 0; i < n; i++ {
			ks = append(ks, randBytes(r, r.Intn(maxLen+1), nil))
		}
	case "twosym":
		alpha := [][]byte{{0x00, 0xff}, {'a', 'b'}, {0x0f, 0xf0}, {0x7f, 0x80}}[r.Intn(4)]
		for i := 0; i < n; i++ {
			ks = append(ks, randBytes(r, r.Intn(maxLen+1), alpha))
		}
	case "prefixes":
		alpha := []byte{0x00, 0x01, 0x61, 0x62, 0xff}
		for len(ks) < n {
			k := randBytes(r, 1+r.Intn(maxLen), alpha)
			// add several prefixes of k, and k itself
			for j := 0; j <= len(k); j++ {
				if r.Intn(2) == 0 || j == len(k) {
					ks = append(ks, k[:j])
				}
			}
		}
	case "wide":
		// >= 11 distinct bytes on the first levels: 257-bit nodes, then narrowing
		fan := 11 + r.Intn(40)
		lv := 1 + r.Intn(3)
		for i := 0; i < n; i++ {
			b := []byte{}
			for l := 0; l < lv; l++ {
				b = append(b, byte(r.Intn(fan)*5+l))
			}
			b = append(b, randBytes(r, r.Intn(maxLen+1), []byte{0x00, 0x10, 0x33, 0x80, 0xff})...)
			ks = append(ks, string(b))
		}
	case "palette", "paletteDeep":
		// P distinct label sets, each used by many 17-bit nodes -> short nodes
		P := 1 + r.Intn(12)
		if r.Intn(3) == 0 {
			P = 1 + r.Intn(60)
		}
		pal := make([][]byte, P)
		for p := range pal {
			sz := 1 + r.Intn(6)
			if r.Intn(4) == 0 {
				sz = 1 + r.Intn(12)
			}
			set := r.Perm(16)[:sz]
			for _, x := range set {
				pal[p] = append(pal[p], byte(x))
			}
		}
		groups := n / 3
		if groups < 1 {
			groups = 1
		}
		for g := 0; g < groups; g++ {
			var head []byte
			if family == "palette" {
				head = []byte{byte(g >> 8), byte(g)}
			} else {
				head = []byte(randBytes(r, 1+r.Intn(3), []byte{0x11, 0x22, 0x33, 0x44}))
				head = append(head, byte(g>>8), byte(g))
			}
			set := pal[r.Intn(P)]
			if r.Intn(8) == 0 {
				// the group key itself ends here (empty label)
				ks = append(ks, string(head))
			}
			for _, nb := range set {
				k := append(append([]byte{}, head...), nb<<4|byte(r.Intn(2)*0xf))
				if r.Intn(4) == 0 {
					k = append(k, randBytes(r, r.Intn(3), nil)...)
				}
				ks = append(ks, string(k))
			}
		}
	case "caterpillar":
		// every inner node carries a long step
		k := []byte{}
		if n > 24 {
			n = 24
		}
		long := 0
		for i := 0; i < n; i++ {
			step := 1 + r.Intn(maxLen)
			if r.Intn(8) == 0 && long < 2 {
				step += 128 + r.Intn(100) // > 255 half-bytes
				long++
			}
			ext := []byte(randBytes(r, step, []byte{0x55, 0xaa, 0x00, 0xff}))
			leafk := append(append([]byte{}, k...), ext...)
			leafk = append(leafk, byte(0x10+r.Intn(4)))
			ks = append(ks, string(leafk))
			k = append(append(k, ext...), byte(0x80+r.Intn(4)))
			if r.Intn(3) == 0 {
				ks = append(ks, string(k)) // a key ending at the spine
			}
		}
	case "ascii":
		words := []string{"a", "ab", "abc", "b", "ba", "be", "bee", "the", "then", "there", "x", "xy", "zoo"}
		for i := 0; i < n; i++ {
			k := ""
			for j := 0; j <= r.Intn(3); j++ {
				k += words[r.Intn(len(words))]
			}
			if r.Intn(3) == 0 {
				k += randBytes(r, r.Intn(4), []byte("abcdefghijklmnopqrstuvwxyz"))
			}
			ks = append(ks, k)
		}
	case "samehigh":
		// > 10 distinct bytes that share their high half-byte: a 257-bit node whose
		// first differing bit lies in the LOW half of the byte
		hi := byte(r.Intn(16)) << 4
		alpha := []byte{}
		for _, x := range r.Perm(16)[:11+r.Intn(6)] {
			alpha = append(alpha, hi|byte(x))
		}
		lv := 1 + r.Intn(2)
		for i := 0; i < n; i++ {
			k := randBytes(r, lv, alpha) + randBytes(r, r.Intn(maxLen+1), []byte{0x00, 0x31, 0x62, 0x80, 0xff})
			ks = append(ks, k)
		}
	case "comb":
		// b, ab, aab, ...: a binary caterpillar whose inner nodes all look alike.
		// The trie is as high as it has keys; the spec's descent recurses per level,
		// so keep it within what TLC evaluates quickly.
		if n > 110 {
			n = 110
		}
		a, b := byte('a'), byte('b')
		if r.Intn(2) == 0 {
			a, b = byte(r.Intn(256)), byte(r.Intn(256))
			if a == b {
				b++
			}
		}
		for i := 0; i < n; i++ {
			k := make([]byte, i+1)
			for j := 0; j < i; j++ {
				k[j] = a
			}
			k[i] = b
			ks = append(ks, string(k))
		}
	case "nibdiv":
		alpha := []byte{0x00, 0x01, 0x0f, 0x10, 0x7f, 0x80, 0xf0, 0xff}
		for i := 0; i < n; i++ {
			ks = append(ks, randBytes(r, r.Intn(maxLen+1), alpha))
		}
	case "longtail":
		// a short distinguishing head and a long tail: leaf tails (and, where siblings share the
		// beginning of their tails, stored prefixes) of 33 .. 600 bytes, with lengths on both
		// sides of 64, 128 and 256
		if n > 60 {
			n = 60
		}
		heads := []byte{0x00, 0x41, 0x42, 0x7f, 0x80, 0xff}
		lens := []int{33, 63, 64, 65, 66, 100, 127, 128, 129, 200, 255, 256, 257, 300, 600}
		var shared string
		for i := 0; i < n; i++ {
			h := randBytes(r, 1+r.Intn(2), heads)
			l := lens[r.Intn(len(lens))]
			t := randBytes(r, l, nil)
			if shared != "" && r.Intn(3) == 0 {
				// a sibling that shares the first 64+ bytes of the previous tail and differs late
				cut := 60 + r.Intn(10)
				if cut > len(shared) {
					cut = len(shared)
				}
				t = shared[:cut] + randBytes(r, 1+r.Intn(80), nil)
				h = ks[len(ks)-1][:len(ks[len(ks)-1])-len(shared)]
			}
			shared = t
			ks = append(ks, h+t)
		}
		sort.Strings(ks)
	case "mixed":
		for len(ks) < n {
			f := familyNames[r.Intn(len(familyNames)-1)]
			sub := genKeys(r, f, 1+n/4, maxLen)
			ks = append(ks, sub...)
		}
	default:
		panic("unknown family " + family)
	}
	return uniq(ks)
}

// ---------------------------------------------------------------------------
// query sets (C03's list)

func querySet(r *rand.Rand, keys []string, limit int) []string {
	qs := map[string]bool{"": true}
	add := func(s string) { qs[s] = true }
	maxLen := 0
	sample := keys
	if len(keys) > 200 {
		sample = make([]string, 0, 200)
		for i := 0; i < 200; i++ {
			sample = append(sample, keys[r.Intn(len(keys))])
		}
		sample = append(sample, keys[0], keys[len(keys)-1])
	}
	for _, k := range keys {
		if len(k) > maxLen {
			maxLen = len(k)
		}
	}
	for _, k := range sample {
		add(k)
		// proper prefixes (all for short keys, sampled for long ones)
		if len(k) <= 12 {
			for i := 0; i < len(k); i++ {
				add(k[:i])
			}
		} else {
			for j := 0; j < 6; j++ {
				add(k[:r.Intn(len(k))])
			}
		}
		add(k + "\x00")
		add(k + "\xff")
		b := []byte(k)
		if len(b) > 0 {
			npos := len(b)
			if npos > 4 {
				npos = 4
			}
			for j := 0; j < npos; j++ {
				i := r.Intn(len(b))
				if len(b) <= 4 {
					i = j
				}
				c := append([]byte{}, b...)
				c[i] ^= 1 << uint(r.Intn(8))
				add(string(c))
				c = append([]byte{}, b...)
				c[i] = byte(r.Intn(256))
				add(string(c))
				// cut right after a mutated byte: ends inside a step
				add(string(c[:i+1]))
			}
			// neighbours in byte order
			c := append([]byte{}, b...)
			if c[len(c)-1] > 0 {
				c[len(c)-1]--
				add(string(c))
				add(string(c) + "\xff")
			}
			c = append([]byte{}, b...)
			if c[len(c)-1] < 255 {
				c[len(c)-1]++
				add(string(c))
			}
		}
	}
	if len(keys) > 0 {
		first, last := keys[0], keys[len(keys)-1]
		if len(first) > 0 {
			add(first[:len(first)-1])
		}
		add(last + "\xff\xff")
	}
	zeros := make([]byte, maxLen+3)
	ffs := make([]byte, maxLen+3)
	for i := range ffs {
		ffs[i] = 0xff
	}
	add(string(zeros))
	add(string(ffs))
	add(string(zeros[:1]))
	add(string(ffs[:1]))
	// much longer than any key
	if len(keys) > 0 {
		k := keys[r.Intn(len(keys))]
		add(k + randBytes(r, 40+maxLen, nil))
	}
	for i := 0; i < 10; i++ {
		add(randBytes(r, r.Intn(maxLen+2), nil))
	}
	// near misses LATE in long keys: same length, one byte changed at the end or next to a
	// power-of-two offset (a comparison that stops early, a fixed-size scratch buffer).  These
	// are kept whatever the limit.
	must := map[string]bool{}
	longKeys := []string{}
	for _, k := range sample {
		if len(k) > 16 {
			longKeys = append(longKeys, k)
		}
	}
	r.Shuffle(len(longKeys), func(i, j int) { longKeys[i], longKeys[j] = longKeys[j], longKeys[i] })
	if len(longKeys) > 8 {
		longKeys = longKeys[:8]
	}
	for _, k := range longKeys {
		offs := []int{len(k) - 1, len(k) - 2, len(k) - 1 - r.Intn(len(k)/2)}
		for _, o := range []int{15, 16, 31, 32, 33, 63, 64, 65, 66, 127, 128, 129, 255, 256, 257} {
			if o < len(k) && r.Intn(3) == 0 {
				offs = append(offs, o, len(k)-1-o)
			}
		}
		for _, o := range offs {
			if o < 0 || o >= len(k) {
				continue
			}
			c := []byte(k)
			c[o] ^= 1 << uint(r.Intn(8))
			must[string(c)] = true
		}
	}
	for q := range must {
		delete(qs, q)
	}
	out := make([]string, 0, len(qs))
	for q := range qs {
		out = append(out, q)
	}
	sort.Strings(out)
	if limit > 0 && len(out) > limit {
		r.Shuffle(len(out), func(i, j int) { out[i], out[j] = out[j], out[i] })
		out = out[:limit]
	}
	for q := range must {
		out = append(out, q)
	}
	sort.Strings(out)
	return out
}

// retained returns the indexes of the retained keys (harness-side; the spec
// recomputes them).
func retained(c *TrieCase) []int {
	dd := c.Opt4[0] != 0
	out := []int{}
	for i := range c.Keys {
		if !(dd && c.HasVals()) || i == 0 || string(c.Vals[i]) != string(c.Vals[i-1]) {
			out = append(out, i)
		}
	}
	return out
}

// floorWitness: for each query the position (1-based, among retained keys) of the
// greatest retained key <= q; 0 if none.  A witness: the spec verifies it.
func floorWitness(c *TrieCase, qs []string) []int {
	ret := retained(c)
	fp := make([]int, len(qs))
	for i, q := range qs {
		fp[i] = sort.Search(len(ret), func(j int) bool { return c.Keys[ret[j]] > q })
	}
	return fp
}

// ---------------------------------------------------------------------------
// boundary-seeking key sets: the succinct structures are arrays of 64-bit words
// with rank indexes per 64 or 128 bits, so the interesting shapes are those whose
// counts land exactly on (or next to) a word boundary.  The harness builds the
// trie with the real library, decodes it with its own decoder and trims keys
// until the wanted condition holds.  (The library only steers generation here;
// it never contributes to a verdict.)

type shapeInfo struct {
	InnerBits, InnerCnt, LeafCnt, NodeCnt, StepCnt, TailCnt int
	LastTop                                                 bool // last stored bit of the last inner node is set
	LastShort                                               bool // the last inner node is a short node
}

func shapeOf(keys []string, o4 [4]int) (shapeInfo, bool) {
	c := &TrieCase{Keys: keys, Enc: "none", Opt4: o4}
	st, _, _ := c.Build()
	if st == nil {
		return shapeInfo{}, false
	}
	b, err := st.Marshal()
	if err != nil {
		return shapeInfo{}, false
	}
	sl, err := ParseSlim(b)
	if err != nil {
		return shapeInfo{}, false
	}
	d, err := Decode(sl)
	if err != nil {
		return shapeInfo{}, false
	}
	si := shapeInfo{InnerCnt: d.InnerCnt, LeafCnt: d.LeafCnt, NodeCnt: len(d.Nodes), StepCnt: d.StepCnt}
	for _, n := range d.Nodes {
		if n.Inner {
			si.LastTop = n.TopBit
			si.LastShort = n.Short
			switch {
			case n.Big:
				si.InnerBits += 257
			case n.Short:
				si.InnerBits += d.ShortSize
			default:
				si.InnerBits += 17
			}
		} else if n.HasTail {
			si.TailCnt++
		}
	}
	return si, true
}

var boundaryConds = []struct {
	Name string
	F    func(s shapeInfo) bool
}{
	{"innerbits%64=0+lastbit", func(s shapeInfo) bool { return s.InnerBits > 0 && s.InnerBits%64 == 0 && s.LastTop }},
	{"innerbits%64=0+lastshort", func(s shapeInfo) bool { return s.InnerBits > 0 && s.InnerBits%64 == 0 && s.LastShort }},
	{"innerbits%64=0", func(s shapeInfo) bool { return s.InnerBits > 0 && s.InnerBits%64 == 0 }},
	{"innerbits%64=63", func(s shapeInfo) bool { return s.InnerBits%64 == 63 }},
	{"innerbits%64=1", func(s shapeInfo) bool { return s.InnerBits > 64 && s.InnerBits%64 == 1 }},
	{"innerbits%128=0", func(s shapeInfo) bool { return s.InnerBits > 0 && s.InnerBits%128 == 0 }},
	{"innercnt%64=0", func(s shapeInfo) bool { return s.InnerCnt > 0 && s.InnerCnt%64 == 0 }},
	{"innercnt%64=1", func(s shapeInfo) bool { return s.InnerCnt > 64 && s.InnerCnt%64 == 1 }},
	{"leafcnt%64=0", func(s shapeInfo) bool { return s.LeafCnt > 0 && s.LeafCnt%64 == 0 }},
	{"leafcnt%64=1", func(s shapeInfo) bool { return s.LeafCnt > 64 && s.LeafCnt%64 == 1 }},
	{"nodecnt%64=0", func(s shapeInfo) bool { return s.NodeCnt > 0 && s.NodeCnt%64 == 0 }},
	{"nodecnt%64=1", func(s shapeInfo) bool { return s.NodeCnt > 64 && s.NodeCnt%64 == 1 }},
	{"stepcnt%128=0", func(s shapeInfo) bool { return s.StepCnt > 0 && s.StepCnt%128 == 0 }},
	{"stepcnt%64=0", func(s shapeInfo) bool { return s.StepCnt > 0 && s.StepCnt%64 == 0 }},
	{"tailcnt%64=0", func(s shapeInfo) bool { return s.TailCnt > 0 && s.TailCnt%64 == 0 }},
}

// seekBoundary returns a key set of the family satisfying condition ci under
// options o4 (the shape depends on the options through ShortSize only), or nil.
func seekBoundary(r *rand.Rand, family string, ci int, o4 [4]int) []string {
	cond := boundaryConds[ci%len(boundaryConds)]
	n := 70 + r.Intn(3)*64 + r.Intn(20)
	if family == "comb" {
		n = 34 + r.Intn(3)*32 + r.Intn(8)
	}
	keys := genKeys(r, family, n, 1+r.Intn(8))
	for tries := 0; tries < 400 && len(keys) > 2; tries++ {
		if si, ok := shapeOf(keys, o4); ok && cond.F(si) {
			return keys
		}
		// drop one key: mostly the last one (keeps the shape regular), sometimes a random one
		i := len(keys) - 1
		if r.Intn(3) == 0 {
			i = r.Intn(len(keys))
		}
		keys = append(append([]string{}, keys[:i]...), keys[i+1:]...)
	}
	return nil
}

var boundaryFamilies = []string{"twosym", "uniform", "samehigh", "wide", "palette", "ascii", "prefixes", "nibdiv", "comb", "twosym"}
