------------------------------ MODULE SlimScan ------------------------------
(***************************************************************************)
(* Model semantics of scanning: trie/slimtrie_scan.go                      *)
(*   getGEPath   the root-to-leaf path of the smallest stored string >= q  *)
(*   newIter     depth-first walk from that path, re-assembling each key   *)
(*               from stored prefixes, labels and the leaf tail            *)
(*                                                                         *)
(* The iterator of the code keeps a stack of (node, current label); in the *)
(* Model the cursor is the position in the depth-first LEAF ORDER of the   *)
(* node table, which is what the stack encodes.                            *)
(***************************************************************************)
EXTENDS SlimQuery

\* does the stored form keep complete keys?  (what the scan APIs require)
StoresCompleteKeys(o) == o.innp /\ o.leafp

\* ---- getGEPath ------------------------------------------------------------
\* state of the descent: path so far, right candidate rID with the path length
\* at which it was seen
RECURSIVE GEFrom(_, _, _, _, _, _, _, _, _)
GEFrom(ks, nodes, o, q, id, i, path, rID, rLen) ==
  LET n == nodes[id] IN
  IF ~n.inner THEN [eq |-> id, i |-> i, path |-> path, rID |-> rID, rLen |-> rLen, visitedLeaf |-> TRUE]
  ELSE
    LET hasp == o.innp /\ HasStep(n)
        pre  == IF hasp THEN CmpRange(q, ks[n.key], i - (i % 2), n.ws) ELSE 0
        i2   == IF hasp THEN n.ws ELSE i        \* a bare step is NOT skipped here
    IN IF pre < 0 THEN [eq |-> -1, i |-> i, path |-> path, rID |-> id, rLen |-> Len(path), visitedLeaf |-> FALSE]
       ELSE IF pre > 0 THEN [eq |-> -1, i |-> i, path |-> path, rID |-> rID, rLen |-> rLen, visitedLeaf |-> FALSE]
       ELSE
         LET path2 == Append(path, id)
             c     == IF i2 < NibLen(q) THEN Label(q, i2, W(n)) ELSE 0
             lr    == LabelRank(n.labels, c)
             has   == IF lr[2] THEN 1 ELSE 0
             ch    == n.first + lr[1] - 1 + has
             lastc == n.first + Len(n.labels) - 1
             rID2  == IF ch + 1 <= lastc THEN ch + 1 ELSE rID
             rLen2 == IF ch + 1 <= lastc THEN Len(path2) ELSE rLen
         IN IF ~lr[2] THEN [eq |-> -1, i |-> i2, path |-> path2, rID |-> rID2, rLen |-> rLen2, visitedLeaf |-> FALSE]
            ELSE IF i2 = NibLen(q)
                 THEN [eq |-> ch, i |-> i2, path |-> path2, rID |-> rID2, rLen |-> rLen2, visitedLeaf |-> FALSE]
                 ELSE GEFrom(ks, nodes, o, q, ch, i2 + W(n), path2, rID2, rLen2)

RECURSIVE LeftMostPath(_, _)
LeftMostPath(nodes, id) ==
  IF nodes[id].inner THEN <<id>> \o LeftMostPath(nodes, nodes[id].first) ELSE <<id>>

\* [path, eq]: path = <<>> when nothing is >= q
GEPath(ks, nodes, o, q) ==
  IF Len(nodes) = 0 THEN [path |-> <<>>, eq |-> FALSE]
  ELSE
    LET d == GEFrom(ks, nodes, o, q, 1, 0, <<>>, -1, -1)
        \* comparison with the leaf tail; a leaf reached through the empty label
        \* is not visited and counts as having no tail
        r == IF d.eq = -1 THEN 2
             ELSE IF ~o.leafp THEN 0
             ELSE Cmp(TailFrom(q, d.i), IF d.visitedLeaf THEN LeafTail(ks, nodes[d.eq]) ELSE <<>>)
    IN IF d.eq # -1 /\ r <= 0 THEN [path |-> Append(d.path, d.eq), eq |-> (r = 0)]
       ELSE IF d.rID = -1 THEN [path |-> <<>>, eq |-> FALSE]
       ELSE [path |-> SubSeq(d.path, 1, d.rLen) \o LeftMostPath(nodes, d.rID), eq |-> FALSE]

\* ---- depth-first leaf order and root paths --------------------------------
RECURSIVE DFSPaths(_, _, _)
\* all root-to-leaf paths below node id (prefix = path from the root to id's parent)
DFSPaths(nodes, id, prefix) ==
  LET n == nodes[id] IN
  IF ~n.inner THEN << Append(prefix, id) >>
  ELSE FlattenSeq([c \in 1..Len(n.labels) |-> DFSPaths(nodes, n.first + c - 1, Append(prefix, id))])

LeafPaths(nodes) == IF Len(nodes) = 0 THEN <<>> ELSE DFSPaths(nodes, 1, <<>>)

\* ---- key re-assembly (scanStackElt.appendInnerPrefix / appendLabel /
\*      appendLeafPrefix), in half-bytes ---------------------------------------
NibsOfBytes(bs) == FlattenSeq([x \in 1..Len(bs) |-> <<bs[x] \div 16, bs[x] % 16>>])
BytesOfNibs(ns) == [x \in 1..(Len(ns) \div 2) |-> 16 * ns[2 * x - 1] + ns[2 * x]]

RECURSIVE Reassemble(_, _, _, _, _, _)
Reassemble(ks, nodes, o, path, j, nibs) ==
  LET n == nodes[path[j]] IN
  IF ~n.inner
  THEN \* leaf: drop a half-consumed byte, append the stored tail
       LET whole == SubSeq(nibs, 1, Len(nibs) - (Len(nibs) % 2))
           tail  == IF o.leafp THEN LeafTail(ks, n) ELSE <<>>
       IN BytesOfNibs(whole) \o tail
  ELSE
    LET \* stored prefix replaces everything from the byte boundary at or before
        \* the current position
        a     == Len(nibs) - (Len(nibs) % 2)
        withp == IF o.innp /\ HasStep(n)
                 THEN SubSeq(nibs, 1, a) \o SubSeq(NibsOfBytes(PrefixBytes(ks, n)), 1, PrefixNibs(n))
                 ELSE nibs
        lc    == n.labels[path[j + 1] - n.first + 1]
        withl == IF lc = 0 THEN withp
                 ELSE IF n.big THEN withp \o <<(lc - 1) \div 16, (lc - 1) % 16>>
                 ELSE Append(withp, lc - 1)
    IN Reassemble(ks, nodes, o, path, j + 1, withl)

ModelKeyOfPath(ks, nodes, o, path) == Reassemble(ks, nodes, o, path, 1, <<>>)

\* ---- the scan as the code performs it --------------------------------------
\* sequence of [key, leaf] yielded by NewIter(start, inclStart)
ModelScan(ks, nodes, o, start, inclStart) ==
  LET gp == GEPath(ks, nodes, o, start)
      lp == LeafPaths(nodes)
  IN IF gp.path = <<>> THEN <<>>
     ELSE LET p0 == SelectInSeq(lp, LAMBDA p : p = gp.path)
              from == IF gp.eq /\ ~inclStart THEN p0 + 1 ELSE p0
          IN [x \in 1..(Len(lp) - from + 1) |->
                LET p == lp[from + x - 1] IN
                [key |-> ModelKeyOfPath(ks, nodes, o, p), leaf |-> p[Len(p)]]]
=============================================================================
