----------------------------- MODULE Trace_Conc -----------------------------
(***************************************************************************)
(* Trace validation for concurrent readers (C11).                          *)
(*   conc    one schedule (from MC_Readers) replayed through the gate hook:*)
(*           per reader the call, its result alone, its result under the   *)
(*           schedule, and the node visits logged at the gates             *)
(*   stress  free-running goroutines of the -race build                    *)
(*   racereport  what the race detector wrote during the stress run        *)
(***************************************************************************)
EXTENDS SlimAPI, Json

CONSTANTS TraceFile, LayerM

VARIABLE l

Trace == ndJsonDeserialize(TraceFile)

TInit == l = 1 /\ inst = NoInst /\ iters = NoIters

Ev(name) == l <= Len(Trace) /\ Trace[l].ev = name /\ l' = l + 1

TNew ==
  /\ Ev("new")
  /\ LET e == Trace[l] IN New(e.keys, e.vals, e.hasvals, e.opt, e.err = "" /\ e.pan = "")

TLoad ==
  /\ Ev("load")
  /\ LET e == Trace[l] IN IF e.err = "" /\ e.pan = "" THEN LoadOwn ELSE inst' = NoInst

\* loaded from a 0.5.10/0.5.11 stream of the trie the preceding `new` describes: the
\* loader re-encodes prefixes and rebuilds the leaf array inside Unmarshal; the content
\* is the same node table
TLegacyLoad ==
  /\ Ev("legacyload")
  /\ LET e == Trace[l] IN IF e.err = "" /\ e.pan = "" THEN LoadOwn ELSE inst' = NoInst

\* the Model's visit sequence of a call, as node ids of the code (index - 1)
ModelVisits(c, rd) ==
  LET v == IF rd.api \in {"GetID", "Get", "GetI"} THEN GetIDVisits(c.ks, c.nodes, c.o, rd.q)
           ELSE SearchVisits(c.ks, c.nodes, c.o, rd.q)
  IN [x \in 1..Len(v) |-> v[x] - 1]

TConc ==
  /\ Ev("conc") /\ Read
  /\ LET e == Trace[l]
         n == Len(e.readers) IN
     /\ inst.live
     \* each call returns exactly what it returns when run alone
     /\ Report(l, "P:C11:result", {r \in 1..n : e.readers[r].got # e.readers[r].solo})
     \* reads leave the shared structure untouched (a deep hash taken while every
     \* reader is blocked): a change is drift, the verdict is on the results
     /\ Report(l, "M:shared-state-written", IF e.hashchanged >= 0 THEN {e.hashchanged} ELSE {})
     \* every reader visits the nodes the Model's descent visits, whatever the interleaving
     /\ LayerM => Report(l, "M:visits",
                         {r \in 1..n : e.readers[r].api \in {"GetID", "Get", "GetI", "Search", "RangeGet"}
                                       /\ e.readers[r].visits # ModelVisits(inst, e.readers[r])})

TStress ==
  /\ Ev("stress") /\ Read
  /\ LET e == Trace[l] IN
     /\ Report(l, "P:C11:result", IF e.mismatch > 0 THEN {e.mismatch} ELSE {})
     /\ Report(l, "M:shared-state-written", IF e.hashchanged # 0 THEN {1} ELSE {})

TRace ==
  /\ Ev("racereport") /\ UNCHANGED inst
  /\ Report(l, "P:C11:race", IF Trace[l].races > 0 THEN {Trace[l].races} ELSE {})

TNext == UNCHANGED iters /\ (TNew \/ TLoad \/ TLegacyLoad \/ TConc \/ TStress \/ TRace)

Accepted == TLCGet("stats").diameter - 1 = Len(Trace)
=============================================================================
