----------------------------- MODULE SlimLegacy -----------------------------
(***************************************************************************)
(* The layouts written by versions before 0.5.10 and the loader's          *)
(* conversion (trie/slimtrie_marshal.go before000510ToNewChildrenArray).   *)
(*                                                                         *)
(* OLD TRIE (0.5.0 .. 0.5.9): 4-bit branching only; nodes numbered in BFS  *)
(* order; a key that ends at an inner node makes that node BOTH inner and  *)
(* leaf; step = skipped half-bytes + 1 (absent = 1); three arrays indexed  *)
(* by node id: children (16-bit label bitmap), steps, leaves.              *)
(*                                                                         *)
(*   old node: [inner, leaf, bm (set of half-byte labels), step, key,      *)
(*              first (0-based id of the first child), lstep (0.5.0 only:  *)
(*              half-bytes of the key left at a leaf, + 1)]                 *)
(*                                                                         *)
(* CONVERSION: a second BFS that renumbers the nodes, gives every          *)
(* inner-and-leaf node an explicit leaf child under the empty label, and   *)
(* re-bases the steps (step - 1 half-bytes).  The result is a node table   *)
(* of the current kind without 257-bit nodes.                              *)
(*                                                                         *)
(* The design check (MC_Legacy) shows: converting the old trie of a key    *)
(* list gives exactly the table the current builder produces for the same  *)
(* keys with the 257-bit latch clear, no de-duplication and no prefixes.   *)
(***************************************************************************)
EXTENDS SlimStream

\* ---- the old trie of a key list ------------------------------------------------
RECURSIVE OldBFS(_, _, _, _)
\* queue: subsets [s, e, from]; i: next to expand; nodes so far
OldBFS(ks, queue, i, nodes) ==
  IF i > Len(queue) THEN nodes
  ELSE
    LET o == queue[i] IN
    IF o.e - o.s = 1
    THEN OldBFS(ks, queue, i + 1,
                Append(nodes, [inner |-> FALSE, leaf |-> TRUE, bm |-> {}, step |-> 1, key |-> o.s,
                               first |-> 0, lstep |-> NibLen(ks[o.s]) - o.from + 1]))
    ELSE
      LET ws      == Min({FDN(ks[x], ks[x+1]) : x \in o.s..(o.e - 2)})
          endsHere == NibLen(ks[o.s]) = ws
          s0      == IF endsHere THEN o.s + 1 ELSE o.s
          labs    == {Nib(ks[x], ws) : x \in s0..(o.e - 1)}
          lseq    == SetToSortSeq(labs, <)
          ch      == [c \in 1..Len(lseq) |->
                        LET idx == {x \in s0..(o.e - 1) : Nib(ks[x], ws) = lseq[c]} IN
                        [s |-> Min(idx), e |-> Min(idx) + Cardinality(idx), from |-> ws + 1]]
      IN OldBFS(ks, queue \o ch, i + 1,
                Append(nodes, [inner |-> TRUE, leaf |-> endsHere, bm |-> labs,
                               step |-> ws - o.from + 1, key |-> o.s,
                               first |-> Len(queue), lstep |-> 1]))

OldTrie(ks) ==
  IF Len(ks) = 0 THEN <<>> ELSE OldBFS(ks, <<[s |-> 1, e |-> Len(ks) + 1, from |-> 0]>>, 1, <<>>)

\* ---- the loader's conversion -----------------------------------------------------
\* an abstract new node: inner [labels, first, step] or leaf [key]
RECURSIVE ConvBFS(_, _, _, _, _)
\* queue elements: [old, leafOnly]; nextOld: next unassigned old id
ConvBFS(old, queue, i, nextOld, out) ==
  IF i > Len(queue) THEN out
  ELSE
    LET q == queue[i]
        n == old[q.old] IN
    IF q.leafOnly \/ (~n.inner /\ n.leaf)
    THEN ConvBFS(old, queue, i + 1, nextOld, Append(out, [inner |-> FALSE, key |-> n.key]))
    ELSE
      LET nb    == Cardinality(n.bm)
          leafq == IF n.leaf THEN <<[old |-> q.old, leafOnly |-> TRUE]>> ELSE <<>>
          kids  == [c \in 1..nb |-> [old |-> nextOld + c - 1, leafOnly |-> FALSE]]
          labels == (IF n.leaf THEN <<0>> ELSE <<>>)
                    \o [c \in 1..nb |-> 1 + SetToSortSeq(n.bm, <)[c]]
      IN ConvBFS(old, queue \o leafq \o kids, i + 1, nextOld + nb,
                 Append(out, [inner |-> TRUE, labels |-> labels,
                              first |-> Len(queue) + 1,
                              step |-> n.step - 1]))

Before000510(old) ==
  IF Len(old) = 0 THEN <<>> ELSE ConvBFS(old, <<[old |-> 1, leafOnly |-> FALSE]>>, 1, 2, <<>>)

\* ---- the same abstraction of a current node table --------------------------------
AbsTable(nodes) ==
  [i \in 1..Len(nodes) |->
     IF nodes[i].inner
     THEN [inner |-> TRUE, labels |-> nodes[i].labels, first |-> nodes[i].first, step |-> Step(nodes[i])]
     ELSE [inner |-> FALSE, key |-> nodes[i].key]]

\* what a loaded pre-0.5.10 stream of `ks` holds, as a current node table
LegacyNodes(ks, vals) == BuildNodes(ks, vals, TRUE, FALSE, FALSE)
=============================================================================
