----------------------------- MODULE Trace_Scan -----------------------------
(***************************************************************************)
(* Trace validation for scans (C04): whole-scan calls (ScanFrom,           *)
(* ScanFromTo, NewIter driven to exhaustion) and interleaved next() calls  *)
(* on several independent iterators of one trie.                           *)
(***************************************************************************)
EXTENDS SlimAPI, Json

CONSTANTS TraceFile, LayerM

VARIABLE l

Trace == ndJsonDeserialize(TraceFile)

TInit == l = 1 /\ inst = NoInst /\ iters = NoIters

Ev(name) == l <= Len(Trace) /\ Trace[l].ev = name /\ l' = l + 1

TNew ==
  /\ Ev("new")
  /\ LET e == Trace[l] IN
     /\ New(e.keys, e.vals, e.hasvals, e.opt, e.err = "" /\ e.pan = "")
     /\ iters' = NoIters
     /\ Report(l, "P:C08:outcome", IF OutcomeAllowed(e.keys, e.err, e.pan) THEN {} ELSE {1})
     \* the harness holds an instance iff the call returned one
     /\ LayerM => Report(l, "M:outcome", LET acc == e.err = "" /\ e.pan = "" IN
                                         IF acc # (IF acc THEN NewOutcome(e.keys, inst') = ""
                                                   ELSE ModelAccepts(e.keys, e.vals, e.hasvals, e.opt))
                                         THEN {1} ELSE {})

TLoad ==
  /\ Ev("load")
  /\ LET e == Trace[l] IN
     /\ Report(l, "P:C05:load", IF e.err # "" \/ e.pan # "" THEN {1} ELSE {})
     /\ IF e.err = "" /\ e.pan = "" THEN LoadOwn ELSE inst' = NoInst
     /\ iters' = NoIters

\* one whole scan call
ScanBad(c, e) ==
  IF Refuses(c)
  THEN (IF e.pan = "" THEN {"notrefused"} ELSE {}) \cup (IF Len(e.yk) > 0 THEN {"yielded-unindexed"} ELSE {})
  ELSE
    LET exp == ScanDelivers(c, e.start, e.incl = 1, e.hasend = 1, e.end, e.inclend = 1, e.stop)
    IN (IF e.pan # "" THEN {"panic"} ELSE {})
       \cup (IF e.pan = "" /\ Len(e.yk) # Len(exp) THEN {"count"} ELSE {})
       \cup (IF e.pan = "" /\ Len(e.yk) = Len(exp) /\ \E x \in 1..Len(exp) : e.yk[x] # c.ks[c.R[exp[x]]]
             THEN {"keys"} ELSE {})
       \cup (IF e.pan = "" /\ Len(e.yk) = Len(exp) /\ \E x \in 1..Len(exp) : e.yv[x] # ScanVal(c, e.withvalue = 1, exp[x])
             THEN {"values"} ELSE {})
       \cup (IF e.extras # 0 THEN {"after-exhaustion"} ELSE {})

\* Layer M: the Model's scan (getGEPath + depth-first walk + key re-assembly)
ScanDrift(c, e) ==
  IF Refuses(c) \/ e.pan # "" THEN {}
  ELSE LET ms == ModelScan(c.ks, c.nodes, c.o, e.start, e.incl = 1)
       IN IF \E x \in 1..Len(e.yk) : x > Len(ms) \/ ms[x].key # e.yk[x] THEN {"modelscan"} ELSE {}

TScan ==
  /\ Ev("scan") /\ Read /\ UNCHANGED iters
  /\ LET e == Trace[l]
         bad == ScanBad(inst, e) IN
     /\ inst.live
     /\ Report(l, "P:C04:" \o e.api, bad)
     /\ LayerM => Report(l, "M:scan", ScanDrift(inst, e))

TIterNew ==
  /\ Ev("iternew") /\ Read
  /\ LET e == Trace[l] IN
     /\ inst.live
     /\ IF Refuses(inst)
        THEN /\ Report(l, "P:C04:iter", IF e.pan = "" THEN {"notrefused"} ELSE {})
             /\ UNCHANGED iters
        ELSE /\ Report(l, "P:C04:iter", IF e.pan # "" THEN {"panic"} ELSE {})
             /\ IF e.pan = "" THEN IterNew(e.id, e.start, e.incl = 1, e.withvalue = 1) ELSE UNCHANGED iters

TIterNext ==
  /\ Ev("iternext") /\ Read
  /\ LET e == Trace[l] IN
     IF HasIter(e.id)
     THEN /\ Report(l, "P:C04:iternext",
                    (IF e.pan # "" THEN {"panic"} ELSE {})
                    \cup (IF e.pan = "" /\ <<e.key, e.val>> # IterYield(e.id) THEN {"yield"} ELSE {}))
          /\ IterNext(e.id)
     ELSE UNCHANGED iters

TNext == TNew \/ TLoad \/ TScan \/ TIterNew \/ TIterNext

Accepted == TLCGet("stats").diameter - 1 = Len(Trace)
=============================================================================
