----------------------------- MODULE Trace_Scan -----------------------------
(***************************************************************************)
(* Trace validation for scans (C04): whole-scan calls (ScanFrom,           *)
(* ScanFromTo, NewIter driven to exhaustion) and interleaved next() calls  *)
(* on several independent iterators of one trie.                           *)
(***************************************************************************)
EXTENDS SlimAPI, Json

CONSTANTS TraceFile, LayerM

VARIABLE l

Trace == ndJsonDeserialize(TraceFile)

TInit == l = 1 /\ inst = NoInst /\ iters = NoIters

Ev(name) == l <= Len(Trace) /\ Trace[l].ev = name /\ l' = l + 1

TNew ==
  /\ Ev("new")
  /\ LET e == Trace[l] IN
     /\ New(e.keys, e.vals, e.hasvals, e.opt, e.err = "" /\ e.pan = "")
     /\ iters' = NoIters
     /\ Report(l, "P:C08:outcome", IF OutcomeAllowed(e.keys, e.err, e.pan) THEN {} ELSE {1})
     \* the harness holds an instance iff the call returned one
     /\ LayerM => Report(l, "M:outcome", LET acc == e.err = "" /\ e.pan = "" IN
                                         IF acc # (IF acc THEN NewOutcome(e.keys, inst') = ""
                                                   ELSE ModelAccepts(e.keys, e.vals, e.hasvals, e.opt))
                                         THEN {1} ELSE {})

TLoad ==
  /\ Ev("load")
  /\ LET e == Trace[l] IN
     /\ Report(l, "P:C05:load", IF e.err # "" \/ e.pan # "" THEN {1} ELSE {})
     /\ IF e.err = "" /\ e.pan = "" THEN LoadOwn ELSE inst' = NoInst
     /\ iters' = NoIters

TScan ==
  /\ Ev("scan") /\ Read /\ UNCHANGED iters
  /\ LET e == Trace[l]
         bad == ScanBad(inst, e) IN
     /\ inst.live
     /\ Report(l, "P:C04:" \o e.api, bad)
     /\ LayerM => Report(l, "M:scan", ScanDrift(inst, e))

TIterNew ==
  /\ Ev("iternew") /\ Read
  /\ LET e == Trace[l] IN
     /\ inst.live
     /\ IF Refuses(inst)
        THEN /\ Report(l, "P:C04:iter", IF e.pan = "" THEN {"notrefused"} ELSE {})
             /\ UNCHANGED iters
        ELSE /\ Report(l, "P:C04:iter", IF e.pan # "" THEN {"panic"} ELSE {})
             /\ IF e.pan = "" THEN IterNew(e.id, e.start, e.incl = 1, e.withvalue = 1) ELSE UNCHANGED iters

TIterNext ==
  /\ Ev("iternext") /\ Read
  /\ LET e == Trace[l] IN
     IF HasIter(e.id)
     THEN /\ Report(l, "P:C04:iternext",
                    (IF e.pan # "" THEN {"panic"} ELSE {})
                    \cup (IF e.pan = "" /\ <<e.key, e.val>> # IterYield(e.id) THEN {"yield"} ELSE {}))
          /\ IterNext(e.id)
     ELSE UNCHANGED iters

TNext == TNew \/ TLoad \/ TScan \/ TIterNew \/ TIterNext

Accepted == TLCGet("stats").diameter - 1 = Len(Trace)
=============================================================================
