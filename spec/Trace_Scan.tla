----------------------------- MODULE Trace_Scan -----------------------------
(***************************************************************************)
(* Trace validation for scans (C04): whole-scan calls (ScanFrom,           *)
(* ScanFromTo, NewIter driven to exhaustion) and interleaved next() calls  *)
(* on several independent iterators of one trie.                           *)
(***************************************************************************)
EXTENDS SlimAPI, Json

CONSTANTS TraceFile, LayerM

VARIABLE l

Trace == ndJsonDeserialize(TraceFile)

TInit == l = 1 /\ inst = NoInst /\ iters = NoIters

Ev(name) == l <= Len(Trace) /\ Trace[l].ev = name /\ l' = l + 1

TNew ==
  /\ Ev("new")
  /\ LET e == Trace[l] IN
     /\ New(e.keys, e.vals, e.hasvals, e.opt, e.err = "" /\ e.pan = "")
     /\ iters' = NoIters
     /\ Report(l, "P:C08:outcome", IF OutcomeAllowed(e.keys, e.err, e.pan) THEN {} ELSE {1})
     \* the harness holds an instance iff the call returned one
     /\ LayerM => Report(l, "M:outcome", LET acc == e.err = "" /\ e.pan = "" IN
                                         IF acc # (IF acc THEN NewOutcome(e.keys, inst') = ""
                                                   ELSE ModelAccepts(e.keys, e.vals, e.hasvals, e.opt))
                                         THEN {1} ELSE {})

TLoad ==
  /\ Ev("load")
  /\ LET e == Trace[l] IN
     /\ Report(l, "P:C05:load", IF e.err # "" \/ e.pan # "" THEN {1} ELSE {})
     /\ IF e.err = "" /\ e.pan = "" THEN LoadOwn ELSE inst' = NoInst
     /\ iters' = NoIters

TScan ==
  /\ Ev("scan") /\ Read /\ UNCHANGED iters
  /\ LET e == Trace[l]
         bad == ScanBad(inst, e) IN
     /\ inst.live
     /\ Report(l, "P:C04:" \o e.api, bad)
     /\ LayerM => Report(l, "M:scan", ScanDrift(inst, e))

TIterNew ==
  /\ Ev("iternew") /\ Read
  /\ LET e == Trace[l] IN
     /\ inst.live
     /\ IF Refuses(inst)
        THEN /\ Report(l, "P:C04:iter", IF e.pan = "" THEN {"notrefused"} ELSE {})
             /\ UNCHANGED iters
        ELSE /\ Report(l, "P:C04:iter", IF e.pan # "" THEN {"panic"} ELSE {})
             /\ IF e.pan = "" THEN IterNew(e.id, e.start, e.incl = 1, e.withvalue = 1) ELSE UNCHANGED iters

TIterNext ==
  /\ Ev("iternext") /\ Read
  /\ LET e == Trace[l] IN
     IF HasIter(e.id)
     THEN /\ Report(l, "P:C04:iternext",
                    (IF e.pan # "" THEN {"panic"} ELSE {})
                    \cup (IF e.pan = "" /\ <<e.key, e.val>> # IterYield(e.id) THEN {"yield"} ELSE {}))
          /\ IterNext(e.id)
     ELSE UNCHANGED iters

\* large and deep tries (Layer P only).  e.rk / e.rv: the retained keys and their values as the
\* harness computes them; per scan: yi = the yielded keys as positions in rk (0: not a retained
\* key), yvi = the yielded values (-2^31: nil), pb / pe = number of retained keys below the
\* start / the end (witnesses, verified here)
NilI == -2147483647 - 1
BelowOK(rk, p, s) == p \in 0..Len(rk) /\ (p = 0 \/ Lt(rk[p], s)) /\ (p = Len(rk) \/ Le(s, rk[p + 1]))
BigScanExpect(rk, sc) ==
  LET n == Len(rk)
      first == IF sc.pb < n /\ sc.incl = 0 /\ rk[sc.pb + 1] = sc.start THEN sc.pb + 2 ELSE sc.pb + 1
      last == IF sc.hasend = 0 THEN n
              ELSE IF sc.pe < n /\ sc.inclend = 1 /\ rk[sc.pe + 1] = sc.end THEN sc.pe + 1 ELSE sc.pe
      cnt0 == IF last >= first THEN last - first + 1 ELSE 0
      cnt == IF sc.stop >= 0 /\ sc.stop < cnt0 THEN sc.stop ELSE cnt0
  IN [x \in 1..cnt |-> first + x - 1]
BigScanBad(e, sc) ==
  LET exp == BigScanExpect(e.rk, sc) IN
  (IF sc.pan # "" THEN {"panic"} ELSE {})
  \cup (IF sc.pan = "" /\ Len(sc.yi) # Len(exp) THEN {"count"} ELSE {})
  \cup (IF sc.pan = "" /\ Len(sc.yi) = Len(exp) /\ sc.yi # exp THEN {"keys"} ELSE {})
  \cup (IF sc.pan = "" /\ Len(sc.yi) = Len(exp) /\ sc.yi = exp
           /\ \E x \in 1..Len(exp) : sc.yvi[x] # (IF sc.withvalue = 1 THEN e.rv[exp[x]] ELSE NilI)
        THEN {"values"} ELSE {})
  \cup (IF sc.extras # 0 THEN {"after-exhaustion"} ELSE {})
TScanBig ==
  /\ Ev("scanbig") /\ inst' = NoInst /\ iters' = NoIters
  /\ LET e == Trace[l] IN
     /\ Report(l, "W:scan-witness",
               (IF ~StrictAsc(e.rk) \/ Len(e.rv) # Len(e.rk) THEN {0} ELSE {})
               \cup {x \in 1..Len(e.scans) : ~BelowOK(e.rk, e.scans[x].pb, e.scans[x].start)
                                              \/ (e.scans[x].hasend = 1 /\ ~BelowOK(e.rk, e.scans[x].pe, e.scans[x].end))})
     /\ \A api \in {"from", "fromto", "iter"} :
          Report(l, "P:C04:" \o api, UNION {BigScanBad(e, e.scans[x]) : x \in {y \in 1..Len(e.scans) : e.scans[y].api = api}})
TBigFail ==
  /\ Ev("bigfail") /\ inst' = NoInst /\ iters' = NoIters
  /\ Report(l, "P:C08:outcome", {1})

TNext == TNew \/ TLoad \/ TScan \/ TIterNew \/ TIterNext \/ TScanBig \/ TBigFail

Accepted == TLCGet("stats").diameter - 1 = Len(Trace)
=============================================================================
