------------------------------ MODULE MC_Array ------------------------------
(***************************************************************************)
(* B1 for C16 with 4-bit words: every subset of 0..Span-1 as index set      *)
(* (including empty words and the empty array): the accessor arithmetic     *)
(* with the zero-for-an-empty-word quirk is a sparse map for every probe;   *)
(* every non-ascending list of <= 3 entries and every length mismatch is    *)
(* refused.                                                                 *)
(***************************************************************************)
EXTENDS SlimArray

CONSTANT Span

VARIABLES idx, phase

Init == idx = <<>> /\ phase = "grow"
\* grow an ascending index list; or (phase "bad") append any entry
Next ==
  \/ /\ phase = "grow" /\ \E i \in 0..(Span - 1) :
          /\ (IF Len(idx) = 0 THEN TRUE ELSE i > idx[Len(idx)])
          /\ idx' = Append(idx, i) /\ UNCHANGED phase
  \/ /\ Len(idx) < 3 /\ \E i \in 0..(Span - 1) : idx' = Append(idx, i) /\ phase' = "bad"

Elts == [x \in 1..Len(idx) |-> 100 + x]

Inv ==
  IF Ascending(idx)
  THEN /\ InitOutcome(idx, Len(idx)) = ""
       /\ \A i \in 0..(NWords(idx) * W - 1) : ModelGet(idx, Elts, 0, i) = SparseGet(idx, Elts, 0, i)
       /\ InitOutcome(idx, Len(idx) + 1) = "len"
  ELSE InitOutcome(idx, Len(idx)) = "asc" /\ OutcomeOK(idx, Len(idx), "asc")
=============================================================================
