----------------------------- MODULE SlimQuery -----------------------------
(***************************************************************************)
(* Model semantics of the lookups: trie/slimtrie_query.go                  *)
(* GetID, searchID, leftMost, rightMost, Get, RangeGet, Search.            *)
(*                                                                         *)
(* One operator per function of the code; each visits the node table the   *)
(* way the code visits the bitmaps, so that the ids returned are the ids   *)
(* the code returns (table index - 1) and false positives are identical.   *)
(*                                                                         *)
(* o = [innp, leafp]: whether inner prefixes / leaf tails are stored.      *)
(***************************************************************************)
EXTENDS SlimBuild

\* <<number of labels smaller than c, whether c is a label>>
LabelRank(labels, c) ==
  <<Cardinality({x \in 1..Len(labels) : labels[x] < c}),
    \E x \in 1..Len(labels) : labels[x] = c>>

\* compare the half-bytes [a, b) of q with those of k: -1 if q is smaller or
\* ends inside the range, 0 if equal, 1 if greater (bitstr.StrCmpUpto)
RECURSIVE CmpRangeRec(_, _, _, _)
CmpRangeRec(q, k, a, b) ==
  IF a >= b THEN 0
  ELSE IF a >= NibLen(q) THEN -1
  ELSE IF Nib(q, a) < Nib(k, a) THEN -1
  ELSE IF Nib(q, a) > Nib(k, a) THEN 1
  ELSE CmpRangeRec(q, k, a + 1, b)
CmpRange(q, k, a, b) ==
  IF a >= b THEN 0
  ELSE IF b - a <= 24 THEN CmpRangeRec(q, k, a, b)
  ELSE LET n  == Min2(NibLen(q), b)
           j  == IF n <= a THEN 0
                 ELSE SelectInSeq([x \in 1..(n - a) |-> Nib(q, a + x - 1) # Nib(k, a + x - 1)],
                                  LAMBDA t : t)
       IN IF j = 0 THEN (IF NibLen(q) < b THEN -1 ELSE 0)
          ELSE IF Nib(q, a + j - 1) < Nib(k, a + j - 1) THEN -1 ELSE 1

\* position of the label word of node n for a query that has consumed i
\* half-bytes, and the prefix comparison result
\*   with stored prefix : compare, continue at n.ws
\*   with stored step   : skip StoredStep half-bytes blindly
HasStep(n) == n.ws > n.from
PrefCmp(ks, o, n, q, i) ==
  IF o.innp /\ HasStep(n) THEN CmpRange(q, ks[n.key], i - (i % 2), n.ws) ELSE 0
AfterStep(o, n, i) ==
  IF o.innp /\ HasStep(n) THEN n.ws ELSE i + StoredStep(n)

RECURSIVE GetIDFrom(_, _, _, _, _, _)
GetIDFrom(ks, nodes, o, q, id, i) ==
  LET n == nodes[id] IN
  IF ~n.inner THEN
     IF o.leafp THEN
        (IF i = NibLen(q)
         THEN (IF Len(LeafTail(ks, n)) > 0 THEN -1 ELSE id)
         ELSE (IF Len(LeafTail(ks, n)) = 0 THEN -1
               ELSE IF LeafTail(ks, n) = TailFrom(q, i) THEN id ELSE -1))
     ELSE id
  ELSE
    LET pre == PrefCmp(ks, o, n, q, i)
        i2  == AfterStep(o, n, i)
    IN IF pre # 0 \/ i2 > NibLen(q) THEN -1
       ELSE LET c  == Label(q, i2, W(n))
                lr == LabelRank(n.labels, c)
            IN IF ~lr[2] THEN -1
               ELSE IF i2 = NibLen(q)
                    THEN n.first + lr[1]     \* the empty-label child; not visited
                    ELSE GetIDFrom(ks, nodes, o, q, n.first + lr[1], i2 + W(n))

\* table index of the leaf reached, -1 if not found
GetIDm(ks, nodes, o, q) == IF Len(nodes) = 0 THEN -1 ELSE GetIDFrom(ks, nodes, o, q, 1, 0)

RECURSIVE LeftMost(_, _)
LeftMost(nodes, id) == IF nodes[id].inner THEN LeftMost(nodes, nodes[id].first) ELSE id
RECURSIVE RightMost(_, _)
RightMost(nodes, id) ==
  IF nodes[id].inner THEN RightMost(nodes, nodes[id].first + Len(nodes[id].labels) - 1) ELSE id

CmpLeaf(ks, o, n, q, i) == IF o.leafp THEN Cmp(TailFrom(q, i), LeafTail(ks, n)) ELSE 0

\* <<l, eq, r>> as node indexes before rightMost/leftMost are applied
RECURSIVE SearchFrom(_, _, _, _, _, _, _, _)
SearchFrom(ks, nodes, o, q, id, i, L, R) ==
  LET n == nodes[id] IN
  IF ~n.inner THEN
     LET r == CmpLeaf(ks, o, n, q, i) IN
     IF r < 0 THEN <<L, -1, id>> ELSE IF r > 0 THEN <<id, -1, R>> ELSE <<L, id, R>>
  ELSE
    LET pre == PrefCmp(ks, o, n, q, i)
        i2  == AfterStep(o, n, i)
    IN IF pre < 0 THEN <<L, -1, id>>
       ELSE IF pre > 0 THEN <<id, -1, R>>
       ELSE IF i2 > NibLen(q) THEN <<L, -1, id>>
       ELSE LET c   == Label(q, i2, W(n))
                lr  == LabelRank(n.labels, c)
                has == IF lr[2] THEN 1 ELSE 0
                ch  == n.first + lr[1] - 1 + has
                L2  == IF lr[1] >= 1 THEN n.first + lr[1] - 1 ELSE L
                R2  == IF ch + 1 <= n.first + Len(n.labels) - 1 THEN ch + 1 ELSE R
            IN IF ~lr[2] THEN <<L2, -1, R2>>
               ELSE IF i2 = NibLen(q)
                    THEN <<L2, ch, R2>>
                    ELSE SearchFrom(ks, nodes, o, q, ch, i2 + W(n), L2, R2)

SearchIDm(ks, nodes, o, q) ==
  IF Len(nodes) = 0 THEN <<-1, -1, -1>>
  ELSE LET r == SearchFrom(ks, nodes, o, q, 1, 0, -1, -1) IN
       << IF r[1] = -1 THEN -1 ELSE RightMost(nodes, r[1]),
          r[2],
          IF r[3] = -1 THEN -1 ELSE LeftMost(nodes, r[3]) >>

\* ------------------------------------------------------------------------
\* node visits (getNode calls) of the two descents, as table indexes: what a
\* reader does to the shared structure, step by step.  The empty-label child at
\* the end of a key is NOT visited by the descent loops.
RECURSIVE GetIDVisitsFrom(_, _, _, _, _, _)
GetIDVisitsFrom(ks, nodes, o, q, id, i) ==
  LET n == nodes[id] IN
  IF ~n.inner THEN <<id>>
  ELSE
    LET pre == PrefCmp(ks, o, n, q, i)
        i2  == AfterStep(o, n, i)
    IN IF pre # 0 \/ i2 > NibLen(q) THEN <<id>>
       ELSE LET c  == Label(q, i2, W(n))
                lr == LabelRank(n.labels, c)
            IN IF ~lr[2] \/ i2 = NibLen(q) THEN <<id>>
               ELSE <<id>> \o GetIDVisitsFrom(ks, nodes, o, q, n.first + lr[1], i2 + W(n))
GetIDVisits(ks, nodes, o, q) == IF Len(nodes) = 0 THEN <<>> ELSE GetIDVisitsFrom(ks, nodes, o, q, 1, 0)

RECURSIVE LeftMostVisits(_, _)
LeftMostVisits(nodes, id) == IF nodes[id].inner THEN <<id>> \o LeftMostVisits(nodes, nodes[id].first) ELSE <<id>>
RECURSIVE RightMostVisits(_, _)
RightMostVisits(nodes, id) ==
  IF nodes[id].inner THEN <<id>> \o RightMostVisits(nodes, nodes[id].first + Len(nodes[id].labels) - 1) ELSE <<id>>

\* searchID: the descent visits the same nodes as long as the query is followed;
\* then rightMost(l) and leftMost(r) walk down from the two candidates
RECURSIVE SearchDescentVisits(_, _, _, _, _, _)
SearchDescentVisits(ks, nodes, o, q, id, i) ==
  LET n == nodes[id] IN
  IF ~n.inner THEN <<id>>
  ELSE
    LET pre == PrefCmp(ks, o, n, q, i)
        i2  == AfterStep(o, n, i)
    IN IF pre # 0 \/ i2 > NibLen(q) THEN <<id>>
       ELSE LET c  == Label(q, i2, W(n))
                lr == LabelRank(n.labels, c)
            IN IF ~lr[2] \/ i2 = NibLen(q) THEN <<id>>
               ELSE <<id>> \o SearchDescentVisits(ks, nodes, o, q, n.first + lr[1], i2 + W(n))
SearchVisits(ks, nodes, o, q) ==
  IF Len(nodes) = 0 THEN <<>>
  ELSE LET r == SearchFrom(ks, nodes, o, q, 1, 0, -1, -1) IN
       SearchDescentVisits(ks, nodes, o, q, 1, 0)
       \o (IF r[1] = -1 THEN <<>> ELSE RightMostVisits(nodes, r[1]))
       \o (IF r[3] = -1 THEN <<>> ELSE LeftMostVisits(nodes, r[3]))

\* ------------------------------------------------------------------------
\* the public API on top of the ids
LeafVal(nodes, vals, hasvals, id) ==
  IF id = -1 THEN NilV ELSE ValAt(vals, hasvals, nodes[id].key)

ModelGetID(ks, nodes, o, q) ==
  LET id == GetIDm(ks, nodes, o, q) IN IF id = -1 THEN -1 ELSE id - 1

ModelGet(ks, nodes, o, vals, hasvals, q) ==
  LET id == GetIDm(ks, nodes, o, q)
  IN IF id = -1 THEN <<0, NilV>> ELSE <<1, LeafVal(nodes, vals, hasvals, id)>>

ModelSearch(ks, nodes, o, vals, hasvals, q) ==
  LET s == SearchIDm(ks, nodes, o, q)
  IN <<LeafVal(nodes, vals, hasvals, s[1]), LeafVal(nodes, vals, hasvals, s[2]),
       LeafVal(nodes, vals, hasvals, s[3])>>

ModelRangeGet(ks, nodes, o, vals, hasvals, q) ==
  LET s == SearchIDm(ks, nodes, o, q)
  IN IF s[2] # -1 THEN <<1, LeafVal(nodes, vals, hasvals, s[2])>>
     ELSE IF s[1] = -1 THEN <<0, NilV>>
     ELSE <<1, LeafVal(nodes, vals, hasvals, s[1])>>
=============================================================================
