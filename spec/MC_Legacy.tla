------------------------------ MODULE MC_Legacy ------------------------------
(***************************************************************************)
(* B1 for C06: in every small world, the loader's conversion of the old    *)
(* trie equals the table of the current builder with the 257-bit latch     *)
(* clear (no de-duplication, steps only) -- so every Ref-stated property   *)
(* proved for that table (MC_Lookup) holds for loaded legacy data; and the *)
(* lookups on it find every key with its value.                            *)
(***************************************************************************)
EXTENDS SlimLegacy

CONSTANTS Alphabet, MaxLen, MaxKeys

VARIABLES keys

Strings == StringsUpTo(Alphabet, MaxLen)
Init == keys = <<>>
Next == /\ Len(keys) < MaxKeys
        /\ \E k \in Strings : (IF Len(keys) = 0 THEN TRUE ELSE Lt(keys[Len(keys)], k)) /\ keys' = Append(keys, k)

Vals == [i \in 1..Len(keys) |-> <<i>>]
NoPref == [innp |-> FALSE, leafp |-> FALSE]

Inv ==
  LET nodes == TLCEval(LegacyNodes(keys, Vals))
      R == [i \in 1..Len(keys) |-> i] IN
  /\ Before000510(OldTrie(keys)) = AbsTable(nodes)
  /\ \A i \in 1..Len(keys) :
       /\ ModelGet(keys, nodes, NoPref, Vals, TRUE, keys[i]) = <<1, <<i>>>>
       /\ ModelRangeGet(keys, nodes, NoPref, Vals, TRUE, keys[i]) = <<1, <<i>>>>
       /\ ModelSearch(keys, nodes, NoPref, Vals, TRUE, keys[i]) = RefSearch(keys, Vals, TRUE, R, keys[i])
=============================================================================
