------------------------------ MODULE MC_Legacy ------------------------------
(***************************************************************************)
(* B1 for C06: in every small world, the loader's conversion of the old    *)
(* trie equals the table of the current builder with the 257-bit latch     *)
(* clear (no de-duplication, steps only) -- so every Ref-stated property   *)
(* proved for that table (MC_Lookup) holds for loaded legacy data; and the *)
(* lookups on it find every key with its value.                            *)
(*                                                                         *)
(* Wire: for every three-section version, the stream SlimWireOld defines   *)
(* for the old trie, read back through the loader's own access functions   *)
(* (bitmap membership, offset + popcount, 4-byte or packed 16-bit child    *)
(* elements, 16-bit steps, fixed-width leaves), IS that old trie -- so the *)
(* chain keys -> old trie -> bytes -> loader's view -> conversion ->        *)
(* current table is closed inside the specification.                        *)
(***************************************************************************)
EXTENDS SlimWireOld

CONSTANTS Alphabet, MaxLen, MaxKeys

VARIABLES keys

Strings == StringsUpTo(Alphabet, MaxLen)
Init == keys = <<>>
Next == /\ Len(keys) < MaxKeys
        /\ \E k \in Strings : (IF Len(keys) = 0 THEN TRUE ELSE Lt(keys[Len(keys)], k)) /\ keys' = Append(keys, k)

Vals == [i \in 1..Len(keys) |-> <<i>>]
NoPref == [innp |-> FALSE, leafp |-> FALSE]

Inv ==
  LET nodes == TLCEval(LegacyNodes(keys, Vals))
      R == [i \in 1..Len(keys) |-> i] IN
  /\ Before000510(OldTrie(keys)) = AbsTable(nodes)
  /\ \A i \in 1..Len(keys) :
       /\ ModelGet(keys, nodes, NoPref, Vals, TRUE, keys[i]) = <<1, <<i>>>>
       /\ ModelRangeGet(keys, nodes, NoPref, Vals, TRUE, keys[i]) = <<1, <<i>>>>
       /\ ModelSearch(keys, nodes, NoPref, Vals, TRUE, keys[i]) = RefSearch(keys, Vals, TRUE, R, keys[i])

Patches == {0, 1, 3, 4, 6, 7, 8, 9}
Wire ==
  LET old == TLCEval(OldTrie(keys)) IN
  \A patch \in Patches :
    LET bs == TLCEval(V3Stream(old, Vals, patch))
        rd == TLCEval(ReadV3(bs, 1)) IN
    /\ Len(rd) = Len(old)
    /\ \A i \in 1..Len(old) :
         /\ rd[i].inner = old[i].inner /\ rd[i].leaf = old[i].leaf
         /\ old[i].inner => (rd[i].bm = old[i].bm /\ rd[i].step = old[i].step)
         /\ old[i].leaf => rd[i].val = Vals[old[i].key]
    \* every proper prefix of the stream is refused (C07 for the old layouts): some section is short
    /\ \A cut \in 0..(Len(bs) - 1) :
         LET secs == Sections(SubSeq(bs, 1, cut)) IN Len(secs) < 3 \/ \E x \in 1..Len(secs) : secs[x].bad
=============================================================================
