----------------------------- MODULE SlimKeys -----------------------------
(***************************************************************************)
(* Byte strings as the specification sees them.                            *)
(*                                                                         *)
(* A key is a sequence of integers 0..255.  All positions inside keys are  *)
(* counted in HALF-BYTES ("nibbles"): the code counts bits, but every      *)
(* position it ever stores or compares is a multiple of four.              *)
(*                                                                         *)
(* Written for TLC's cost model (DESIGN.md appendix B): no recursion over  *)
(* the length of a key -- the first difference of two strings is found     *)
(* with the Java-backed SelectInSeq.                                       *)
(***************************************************************************)
EXTENDS Integers, Sequences, FiniteSets, TLC, SequencesExt, FiniteSetsExt

Min2(a, b) == IF a < b THEN a ELSE b
Max2(a, b) == IF a > b THEN a ELSE b

NibLen(k) == 2 * Len(k)

\* the i-th half-byte of k, i counted from 0
Nib(k, i) == LET b == k[(i \div 2) + 1] IN IF i % 2 = 0 THEN b \div 16 ELSE b % 16

\* 1-based index of the first byte in which a and b differ; Min(Len)+1 if one
\* is a prefix of the other
\* (short strings: plain recursion, cheaper than building a tuple; long ones:
\* SelectInSeq, because deep recursion is what TLC is bad at)
RECURSIVE FirstDiffRec(_, _, _, _)
FirstDiffRec(a, b, i, n) ==
  IF i > n THEN n + 1 ELSE IF a[i] # b[i] THEN i ELSE FirstDiffRec(a, b, i + 1, n)
FirstDiffByte(a, b) ==
  LET n == Min2(Len(a), Len(b))
  IN IF n <= 12 THEN FirstDiffRec(a, b, 1, n)
     ELSE LET j == SelectInSeq([i \in 1..n |-> a[i] # b[i]], LAMBDA x : x)
          IN IF j = 0 THEN n + 1 ELSE j

\* first differing half-byte (0-based); the shorter length if one is a prefix
FDN(a, b) ==
  LET n == Min2(Len(a), Len(b))
      j == FirstDiffByte(a, b)
  IN IF j > n THEN 2 * n
     ELSE IF a[j] \div 16 # b[j] \div 16 THEN 2 * (j - 1) ELSE 2 * (j - 1) + 1

\* plain bytewise order: -1 / 0 / 1
Cmp(a, b) ==
  LET n == Min2(Len(a), Len(b))
      j == FirstDiffByte(a, b)
  IN IF j > n THEN (IF Len(a) = Len(b) THEN 0 ELSE IF Len(a) < Len(b) THEN -1 ELSE 1)
     ELSE IF a[j] < b[j] THEN -1 ELSE 1

Lt(a, b) == Cmp(a, b) < 0
Le(a, b) == Cmp(a, b) <= 0

IsPrefixOf(p, k) == Len(p) <= Len(k) /\ FirstDiffByte(p, k) > Len(p)

StrictAsc(ks) == \A i \in 1..(Len(ks) - 1) : Lt(ks[i], ks[i+1])

\* index of the first order violation: least i with ks[i] >= ks[i+1]; 0 if none
FirstDisorder(ks) ==
  IF Len(ks) < 2 THEN 0
  ELSE SelectInSeq([i \in 1..(Len(ks) - 1) |-> ~Lt(ks[i], ks[i+1])], LAMBDA x : x)

\* the bytes of k from the byte that contains half-byte position nib
TailFrom(k, nib) == SubSeq(k, (nib \div 2) + 1, Len(k))

\* all strings over an alphabet up to a length (small universes only)
RECURSIVE StrsOfLen(_, _)
StrsOfLen(A, n) == IF n = 0 THEN {<<>>} ELSE {Append(s, c) : s \in StrsOfLen(A, n - 1), c \in A}
StringsUpTo(A, n) == UNION {StrsOfLen(A, m) : m \in 0..n}
=============================================================================
