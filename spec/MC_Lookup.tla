----------------------------- MODULE MC_Lookup -----------------------------
(***************************************************************************)
(* B1 design check of the lookup family: in EVERY small world (ascending   *)
(* key list over a nibble-diverse alphabet x run-length value pattern x    *)
(* dedup x with/without values), and for every string of the universe as   *)
(* query, the Model (SlimBuild + SlimQuery) satisfies the Ref-stated       *)
(* properties C01 C02 C03 C09 C10 C13 C18.  The 257-bit threshold is       *)
(* lowered (BigMin) so that 3-4 key worlds contain 257-bit nodes.          *)
(*                                                                         *)
(* A state is a world; Next appends one key (and a value that either       *)
(* repeats the previous one or is new), so TLC enumerates all worlds.      *)
(***************************************************************************)
EXTENDS Worlds



\* the Model's answers for every mode and every string of the universe, computed
\* once per world: A[o][q] = <<get, id, rget, search>>
Answers(nodes) ==
  TLCEval([o \in Modes |->
     TLCEval([q \in Strings |->
        LET id == GetIDm(keys, nodes, o, q)
            s  == SearchIDm(keys, nodes, o, q)
            LV(x) == LeafVal(nodes, vals, hasvals, x)
        IN << IF id = -1 THEN <<0, NilV>> ELSE <<1, LV(id)>>,
              IF id = -1 THEN -1 ELSE id - 1,
              IF s[2] # -1 THEN <<1, LV(s[2])>> ELSE IF s[1] = -1 THEN <<0, NilV>> ELSE <<1, LV(s[1])>>,
              <<LV(s[1]), LV(s[2]), LV(s[3])>> >>])])


Inv ==
  LET nodes == TLCEval(Nodes)
      A == Answers(nodes)
      lv == ModelLevels(nodes)
      n == Len(lv)
  IN
  \* C01, C09: retained keys, every mode;  C02: every key, every mode
  /\ \A o \in Modes :
       /\ \A p \in 1..Len(R) :
            LET i == R[p] a == A[o][keys[i]] IN
            /\ a[1] = <<1, ValAt(vals, hasvals, i)>>
            /\ a[2] >= 0
            /\ a[4] = RefSearch(keys, vals, hasvals, R, keys[i])
       /\ \A i \in 1..Len(keys) : A[o][keys[i]][3] = <<1, ValAt(vals, hasvals, i)>>
  \* C03: complete mode is exact for every string of the universe
  /\ \A q \in Strings :
       LET a == A[Complete][q] IN
       /\ a[1] = RefGet(keys, vals, hasvals, R, q)
       /\ a[3] = RefFloor(keys, vals, hasvals, R, q)
       /\ a[4] = RefSearch(keys, vals, hasvals, R, q)
       /\ (a[2] >= 0) = (a[1][1] = 1)
  \* C10: the two descents agree, hits carry supplied values
  /\ \A o \in Modes : \A q \in Strings :
       LET a == A[o][q] IN
       /\ (a[1][1] = 1) = (a[2] >= 0)
       /\ hasvals => (a[1][2] = a[4][2])
       /\ a[1][1] = 1 => a[3] = a[1]
       /\ (a[1][1] = 1 /\ hasvals) => \E i \in 1..Len(keys) : vals[i] = a[1][2]
  \* C13: more stored information only removes hits
  /\ \A a \in Modes, b \in Modes : \A q \in Strings :
       ((a.innp => b.innp) /\ (a.leafp => b.leafp) /\ A[b][q][1][1] = 1)
          => A[a][q][1] = A[b][q][1]
  \* C18: level totals of the Model table
  /\ lv[1] = <<0, 0, 0>>
  /\ \A i \in 1..n : lv[i][1] = lv[i][2] + lv[i][3]
  /\ \A i \in 1..(n - 1) : \A x \in 1..3 : lv[i][x] <= lv[i+1][x]
  /\ lv[n][1] = Len(nodes) /\ lv[n][3] = Len(R)
  \* every step of a small world fits its counter (StepBits real): no overflow
  /\ StepsFit(nodes)
=============================================================================
