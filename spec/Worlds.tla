------------------------------- MODULE Worlds -------------------------------
(***************************************************************************)
(* The small worlds of the design checks (B1): every strictly ascending    *)
(* key list of at most MaxKeys strings over Alphabet (length <= MaxLen),   *)
(* with every run-length value pattern, with and without de-duplication,   *)
(* with and without values.  A state is a world; Next appends one key, so  *)
(* TLC's reachable states are exactly the worlds.                          *)
(***************************************************************************)
EXTENDS SlimScan

CONSTANTS Alphabet, MaxLen, MaxKeys

VARIABLES keys, vals, dd, hasvals

vars == <<keys, vals, dd, hasvals>>

Strings == StringsUpTo(Alphabet, MaxLen)

Init == keys = <<>> /\ vals = <<>> /\ dd \in BOOLEAN /\ hasvals \in BOOLEAN

Next ==
  /\ Len(keys) < MaxKeys
  /\ \E k \in Strings :
       /\ (IF Len(keys) = 0 THEN TRUE ELSE Lt(keys[Len(keys)], k))
       /\ keys' = Append(keys, k)
       /\ \E same \in (IF dd /\ hasvals /\ Len(keys) > 0 THEN BOOLEAN ELSE {FALSE}) :
            vals' = Append(vals, IF same THEN vals[Len(vals)] ELSE <<Len(vals) + 1>>)
  /\ UNCHANGED <<dd, hasvals>>

R == RetainedIdx(Len(keys), vals, hasvals, dd)
Nodes == BuildNodes(keys, vals, hasvals, dd, TRUE)
Modes == {[innp |-> a, leafp |-> b] : a \in BOOLEAN, b \in BOOLEAN}
Complete == [innp |-> TRUE, leafp |-> TRUE]
=============================================================================
