------------------------------- MODULE Worlds -------------------------------
(***************************************************************************)
(* The small worlds of the design checks (B1): every strictly ascending    *)
(* key list of at most MaxKeys strings over Alphabet (length <= MaxLen),   *)
(* with every assignment of values from a two-value domain (all run-length patterns and recurring values), with and without de-duplication,   *)
(* with and without values.  A state is a world; Next appends one key, so  *)
(* TLC's reachable states are exactly the worlds.                          *)
(***************************************************************************)
EXTENDS SlimScan

CONSTANTS Alphabet, MaxLen, MaxKeys

VARIABLES keys, vals, dd, hasvals

vars == <<keys, vals, dd, hasvals>>

Strings == StringsUpTo(Alphabet, MaxLen)

Init == keys = <<>> /\ vals = <<>> /\ dd \in BOOLEAN /\ hasvals \in BOOLEAN

Next ==
  /\ Len(keys) < MaxKeys
  /\ \E k \in Strings :
       /\ (IF Len(keys) = 0 THEN TRUE ELSE Lt(keys[Len(keys)], k))
       /\ keys' = Append(keys, k)
       \* with de-duplication the values matter: every assignment over a two-value
       \* domain (all run-length patterns AND values that come back after a different
       \* one); otherwise the values are distinct
       /\ \E v \in (IF dd /\ hasvals THEN {<<1>>, <<2>>} ELSE {<<Len(vals) + 1>>}) :
            vals' = Append(vals, v)
  /\ UNCHANGED <<dd, hasvals>>

R == RetainedIdx(Len(keys), vals, hasvals, dd)
Nodes == BuildNodes(keys, vals, hasvals, dd, TRUE)
Modes == {[innp |-> a, leafp |-> b] : a \in BOOLEAN, b \in BOOLEAN}
Complete == [innp |-> TRUE, leafp |-> TRUE]
=============================================================================
