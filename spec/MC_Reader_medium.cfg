CONSTANTS
  BigMin = 2
  ShortCost = 2
  MaxShort = 10
  StepBits = 16
  Alphabet = {0, 1, 16, 255}
  MaxLen = 2
  MaxKeys = 4
INIT Init
NEXT Next
INVARIANT Inv
CHECK_DEADLOCK FALSE
