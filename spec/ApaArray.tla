------------------------------ MODULE ApaArray ------------------------------
(***************************************************************************)
(* Symbolic check (Apalache) of the offset arithmetic of compacted arrays   *)
(* (SlimArray): for EVERY index set S within N positions and every probe i, *)
(* the accessor's position -- offset of the word (ZERO for an empty word)   *)
(* plus the number of set bits below the probe inside the word -- equals    *)
(* the number of elements below i.  One symbolic state stands for all 2^N   *)
(* index sets.                                                              *)
(***************************************************************************)
EXTENDS Integers, FiniteSets

CONSTANT
  \* @type: Int;
  N

VARIABLES
  \* @type: Set(Int);
  S,
  \* @type: Int;
  i

W == 4

Init == S \in SUBSET (0..(N - 1)) /\ i \in 0..(N - 1)
Next == UNCHANGED <<S, i>>

WordBits(w) == {b \in 0..(W - 1) : (W * w + b) \in S}
Off(w) == IF WordBits(w) = {} THEN 0 ELSE Cardinality({x \in S : x < W * w})
Pos(x) == Off(x \div W) + Cardinality({b \in WordBits(x \div W) : b < x % W})

Inv == i \in S => Pos(i) = Cardinality({x \in S : x < i})
=============================================================================
