CONSTANTS
  W = 64
  LayerM = TRUE
  TraceFile = "trace.ndjson"
INIT TInit
NEXT TNext
POSTCONDITION Accepted
CHECK_DEADLOCK FALSE
