CONSTANTS
  BigMin = 10
  ShortCost = 64
  MaxShort = 10
  StepBits = 16
SPECIFICATION Spec
INVARIANTS NoInterference Emit
PROPERTY EventuallyAll
CHECK_DEADLOCK FALSE
