CONSTANTS
  BigMin = 10
  ShortCost = 64
  MaxShort = 10
  StepBits = 16
SPECIFICATION Spec
INVARIANT NoInterference
PROPERTY EventuallyAll
CHECK_DEADLOCK FALSE
