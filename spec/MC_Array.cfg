CONSTANTS
  W = 4
  Span = 12
INIT Init
NEXT Next
INVARIANT Inv
CHECK_DEADLOCK FALSE
