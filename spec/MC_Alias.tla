------------------------------ MODULE MC_Alias ------------------------------
(***************************************************************************)
(* Ownership of memory (C20, and the "two Marshal results alive at once"   *)
(* clause of C05) as an explicit state machine.                            *)
(*                                                                         *)
(*   heap[b]   content of buffer b (an abstract stream id, 0 = scribbled)   *)
(*   caller    buffers the caller owns and may overwrite at any time: its  *)
(*             own input buffers and every buffer Marshal handed out       *)
(*   inst      what the instance answers from: [val |-> a stream id] when  *)
(*             it holds a private copy, [ref |-> b] when it reads buffer b *)
(*   handed    the Marshal results still in the caller's hands, with the   *)
(*             stream each of them held when it was returned               *)
(*   pool      the buffer a pooled Marshal would reuse                     *)
(*                                                                         *)
(* Design = "copy" is what the library does: Unmarshal copies out of the   *)
(* input, Marshal allocates.  The other designs are the defects the        *)
(* property excludes; TLC finds each of them (see DESIGN.md), which shows  *)
(* the invariants are not vacuous.                                         *)
(***************************************************************************)
EXTENDS Integers, FiniteSets, Sequences, TLC

CONSTANTS Design,      \* "copy" | "alias-in" | "alias-out" | "pool-out"
          Streams,     \* abstract stream ids (positive integers)
          MaxBuf       \* bound on the number of buffers

VARIABLES heap, caller, inst, handed, pool

vars == <<heap, caller, inst, handed, pool>>

Bufs == DOMAIN heap
Fresh == IF Bufs = {} THEN 1 ELSE 1 + CHOOSE m \in Bufs : \A x \in Bufs : x <= m

Init ==
  /\ heap = [b \in 1..Cardinality(Streams) |-> CHOOSE s \in Streams : s = b]   \* one input buffer per stream
  /\ caller = 1..Cardinality(Streams)
  /\ inst = [val |-> 0]
  /\ handed = <<>>
  /\ pool = 0

\* what the instance answers from right now
Answer == IF "val" \in DOMAIN inst THEN inst.val ELSE heap[inst.ref]

\* Unmarshal(b): the instance holds the stream that is in b NOW
Unmarshal(b) ==
  /\ heap[b] # 0
  /\ inst' = IF Design = "alias-in" THEN [ref |-> b] ELSE [val |-> heap[b]]
  /\ UNCHANGED <<heap, caller, handed, pool>>

\* Marshal: returns a buffer holding the instance's stream
Marshal ==
  /\ Answer # 0 /\ Cardinality(Bufs) < MaxBuf
  /\ LET reuse == Design = "pool-out" /\ pool # 0
         b == IF reuse THEN pool ELSE Fresh IN
     /\ heap' = IF reuse THEN [heap EXCEPT ![b] = Answer] ELSE (b :> Answer) @@ heap
     /\ caller' = caller \cup {b}
     /\ handed' = Append(handed, [buf |-> b, was |-> Answer])
     /\ pool' = IF Design = "pool-out" THEN b ELSE pool
     /\ inst' = IF Design = "alias-out" THEN [ref |-> b] ELSE inst

\* the caller overwrites a buffer it owns (and forgets a Marshal result it overwrote itself)
Scribble(b) ==
  /\ b \in caller /\ heap[b] # 0
  /\ heap' = [heap EXCEPT ![b] = 0]
  /\ handed' = SelectSeq(handed, LAMBDA h : h.buf # b)
  /\ UNCHANGED <<caller, inst, pool>>

Next == (\E b \in Bufs : Unmarshal(b) \/ Scribble(b)) \/ Marshal

Spec == Init /\ [][Next]_vars

\* C20: nothing the caller may overwrite is read by the instance
NoAlias == "ref" \in DOMAIN inst => inst.ref \notin caller

\* C20 as an action property: a scribble never changes an answer
ScribbleInvisible == [][(\E b \in Bufs : Scribble(b)) => Answer' = Answer]_vars

\* C05/C20: a Marshal result the caller still holds keeps the stream it was returned with
ResultsStayIntact == \A i \in 1..Len(handed) : heap[handed[i].buf] = handed[i].was

\* Marshal never changes what the instance answers
MarshalReadsOnly == [][Marshal => Answer' = Answer]_vars
=============================================================================
