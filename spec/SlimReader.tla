----------------------------- MODULE SlimReader -----------------------------
(***************************************************************************)
(* Level B reader: the lookups as slimtrie_query.go performs them ON THE   *)
(* STORED FORM -- bit positions, rank indexes, select index -- not on the  *)
(* node table.  Each operator is one function of the code:                 *)
(*                                                                         *)
(*   Rank64 / Rank128   ones before position i, from the rank index entry  *)
(*                      of the word (pair) plus a popcount inside it       *)
(*   Select32R64        byte range of the i-th element of a positional     *)
(*                      array, from select index + rank index + word scan  *)
(*   GetNodeB           getNode: node kind, bit range [from, to) of its    *)
(*                      label bitmap (BigInnerOffset + 17*i +              *)
(*                      ShortMinusInner*j), the short-table lookup, the    *)
(*                      step or prefix of the node                         *)
(*   LeftChildB         getLeftChildID: rank of the label bit              *)
(*   GetIDB             the descent of GetID                               *)
(*                                                                         *)
(* The design check MC_Reader shows, in every small world, for every       *)
(* option combination and every query string, that GetIDB on Encode(c)     *)
(* returns exactly what GetIDm returns on the node table: the stored form  *)
(* with its indexes is a refinement of the table under the reader's        *)
(* arithmetic.  (Level B is bound to the code by the `proto` events: the   *)
(* real message equals Encode(c) field by field.)                          *)
(***************************************************************************)
EXTENDS SlimEncode

\* ones in bm below position p, computed the way the code does: index entry of the
\* 64-bit word (or 128-bit pair) + ones inside it below p
OnesIn(bits, lo, p) == Cardinality({b \in bits : b >= lo /\ b < p})
Rank64B(bm, i) ==
  LET w == i \div 64 IN <<bm.rank[w + 1] + OnesIn(bm.bits, 64 * w, i), IF i \in bm.bits THEN 1 ELSE 0>>
Rank128B(bm, i) ==
  LET x == i \div 128 IN <<bm.rank[x + 1] + OnesIn(bm.bits, 128 * x, i), IF i \in bm.bits THEN 1 ELSE 0>>

\* position of the i-th (0-based) one and of the next one: Select32R64
RECURSIVE FindWord(_, _, _)
FindWord(bm, w, i) == IF bm.rank[w + 2] <= i THEN FindWord(bm, w + 1, i) ELSE w
NthOneFrom(bits, lo, k) ==          \* k-th (0-based) one at or after lo
  LET later == {b \in bits : b >= lo} IN SetToSortSeq(later, <)[k + 1]
Select32R64B(bm, i) ==
  LET w0 == bm.sel[(i \div 32) + 1] \div 64
      w  == FindWord(bm, w0, i)
      a  == NthOneFrom(bm.bits, 64 * w, i - bm.rank[w + 1])
      b  == NthOneFrom(bm.bits, a + 1, 0)
  IN <<a, b>>

\* ---- getNode ------------------------------------------------------------------
GetNodeB(m, id) ==
  LET r == Rank64B(m.nodetype, id)
      ith == r[1] IN
  IF r[2] = 0 THEN [inner |-> FALSE, ithLeaf |-> id - ith]
  ELSE
    LET big == ith < m.bigcnt
        sr  == IF big THEN <<0, 0>> ELSE Rank64B(m.shortbm, ith)
        from == IF big THEN ith * 257
                ELSE (257 - 17) * m.bigcnt + 17 * ith + (m.shortsize - 17) * sr[1]
        short == ~big /\ sr[2] = 1
        to   == from + (IF big THEN 257 ELSE IF short THEN m.shortsize ELSE 17)
        \* a short node: the stored bits are an index into the table
        sval == IF short THEN FoldLeft(LAMBDA acc, b : acc + (IF from + b \in m.inners.bits THEN Pow2(b) ELSE 0),
                                      0, [b \in 1..m.shortsize |-> b - 1]) ELSE 0
        bm17 == IF short THEN m.shorttable[sval + 1] ELSE 0
        hasp == m.ip.eltcnt > 0 /\ (ith \in m.ip.presence.bits)
        ithp == IF hasp THEN Rank128B(m.ip.presence, ith)[1] ELSE 0
        rng  == IF hasp /\ m.ip.fixed = 0 THEN Select32R64B(m.ip.position, ithp) ELSE <<0, 0>>
        pfx  == IF hasp /\ m.ip.fixed = 0 THEN SubSeq(m.ip.bytes, rng[1] + 1, rng[2]) ELSE <<>>
        step == IF hasp /\ m.ip.fixed # 0 THEN m.ip.bytes[2 * ithp + 1] * 256 + m.ip.bytes[2 * ithp + 2] ELSE 0
    IN [inner |-> TRUE, big |-> big, short |-> short, from |-> from, to |-> to, bm17 |-> bm17,
        hasPrefix |-> hasp /\ m.ip.fixed = 0, prefix |-> pfx, step |-> step]

\* number of payload half-bytes of a stored bit-string (bitstr.Len / 4)
PrefixLenNibs(p) == 2 * (Len(p) - 1) - (IF p[Len(p)] = 240 THEN 1 ELSE 0)

\* getLeftChildID: <<id of the child left of the label, label bit set?>>
LeftChildB(m, n, c) ==
  IF n.short
  THEN LET r0 == Rank128B(m.inners, n.from)[1]
           bits == BitsOfNum(n.bm17, 0) IN
       <<r0 + Cardinality({b \in bits : b < c}), IF c \in bits THEN 1 ELSE 0>>
  ELSE Rank128B(m.inners, n.from + c)

\* leaf tail of the ithLeaf-th leaf, <<>> if none
LeafTailB(m, ithLeaf) ==
  IF ~m.lp.present \/ ithLeaf \notin m.lp.presence.bits THEN <<>>
  ELSE LET k == Rank64B(m.lp.presence, ithLeaf)[1]
           rng == Select32R64B(m.lp.position, k)
       IN SubSeq(m.lp.bytes, rng[1] + 1, rng[2])

\* compare the query from byte i\div 2 on with a stored bit-string (StrCmpUpto)
CmpPrefixB(q, i, p) ==
  LET nn == PrefixLenNibs(p)
      a  == i - (i % 2)
      pn == NibsOfBytes(SubSeq(p, 1, Len(p) - 1))
      RECURSIVE Go(_)
      Go(x) == IF x >= nn THEN 0
               ELSE IF a + x >= NibLen(q) THEN -1
               ELSE IF Nib(q, a + x) < pn[x + 1] THEN -1
               ELSE IF Nib(q, a + x) > pn[x + 1] THEN 1
               ELSE Go(x + 1)
  IN Go(0)

\* ---- GetID on the stored form; node ids are the code's (0-based), -1 = not found
RECURSIVE GetIDBFrom(_, _, _, _)
GetIDBFrom(m, q, id, i) ==
  LET n == GetNodeB(m, id) IN
  IF ~n.inner
  THEN IF ~m.lp.present THEN id
       ELSE LET tail == LeafTailB(m, n.ithLeaf) IN
            IF i = NibLen(q) THEN (IF Len(tail) > 0 THEN -1 ELSE id)
            ELSE IF Len(tail) = 0 THEN -1
            ELSE IF tail = TailFrom(q, i) THEN id ELSE -1
  ELSE
    LET pre == IF n.hasPrefix THEN CmpPrefixB(q, i, n.prefix) ELSE 0
        i2  == IF n.hasPrefix THEN (i - (i % 2)) + PrefixLenNibs(n.prefix) ELSE i + n.step
        w   == IF n.big THEN 2 ELSE 1
    IN IF pre # 0 \/ i2 > NibLen(q) THEN -1
       ELSE LET c  == Label(q, i2, w)
                lc == LeftChildB(m, n, c)
            IN IF lc[2] = 0 THEN -1
               ELSE IF i2 = NibLen(q) THEN lc[1] + 1
               ELSE GetIDBFrom(m, q, lc[1] + 1, i2 + w)

GetIDB(m, q) == GetIDBFrom(m, q, 0, 0)

\* ---- searchID, leftMost, rightMost on the stored form --------------------------------
OnesUpTo(m, p) == LET r == Rank128B(m.inners, p) IN r[1] + r[2]     \* ones at positions <= p

RECURSIVE LeftMostB(_, _)
LeftMostB(m, id) ==
  LET n == GetNodeB(m, id) IN IF ~n.inner THEN id ELSE LeftMostB(m, Rank128B(m.inners, n.from)[1] + 1)
RECURSIVE RightMostB(_, _)
RightMostB(m, id) ==
  LET n == GetNodeB(m, id) IN IF ~n.inner THEN id ELSE RightMostB(m, OnesUpTo(m, n.to - 1))

\* the descent; returns <<l, eq, r>> before rightMost/leftMost, ids 0-based, -1 none
RECURSIVE SearchBFrom(_, _, _, _, _, _)
SearchBFrom(m, q, id, i, L, R) ==
  LET n == GetNodeB(m, id) IN
  IF ~n.inner
  THEN LET tail == IF m.lp.present THEN LeafTailB(m, n.ithLeaf) ELSE <<>>
           r == IF m.lp.present THEN Cmp(TailFrom(q, i), tail) ELSE 0 IN
       IF r < 0 THEN <<L, -1, id>> ELSE IF r > 0 THEN <<id, -1, R>> ELSE <<L, id, R>>
  ELSE
    LET pre == IF n.hasPrefix THEN CmpPrefixB(q, i, n.prefix) ELSE 0
        i2  == IF n.hasPrefix THEN (i - (i % 2)) + PrefixLenNibs(n.prefix) ELSE i + n.step
        w   == IF n.big THEN 2 ELSE 1
    IN IF pre < 0 THEN <<L, -1, id>>
       ELSE IF pre > 0 THEN <<id, -1, R>>
       ELSE IF i2 > NibLen(q) THEN <<L, -1, id>>
       ELSE
         LET c  == Label(q, i2, w)
             lc == LeftChildB(m, n, c)
             ch == lc[1] + lc[2]
             lmost == Rank128B(m.inners, n.from)[1] + 1
             rmost == OnesUpTo(m, n.to - 1)
             L2 == IF lc[1] >= lmost /\ lc[1] <= rmost THEN lc[1] ELSE L
             R2 == IF ch + 1 >= lmost /\ ch + 1 <= rmost THEN ch + 1 ELSE R
         IN IF lc[2] = 0 THEN <<L2, -1, R2>>
            ELSE IF i2 = NibLen(q) THEN <<L2, ch, R2>>       \* the empty-label leaf: no tail
            ELSE SearchBFrom(m, q, ch, i2 + w, L2, R2)

SearchIDB(m, q) ==
  LET r == SearchBFrom(m, q, 0, 0, -1, -1) IN
  << IF r[1] = -1 THEN -1 ELSE RightMostB(m, r[1]), r[2], IF r[3] = -1 THEN -1 ELSE LeftMostB(m, r[3]) >>
=============================================================================
