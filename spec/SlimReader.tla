----------------------------- MODULE SlimReader -----------------------------
(***************************************************************************)
(* Level B reader: the lookups as slimtrie_query.go performs them ON THE   *)
(* STORED FORM -- bit positions, rank indexes, select index -- not on the  *)
(* node table.  Each operator is one function of the code:                 *)
(*                                                                         *)
(*   Rank64 / Rank128   ones before position i, from the rank index entry  *)
(*                      of the word (pair) plus a popcount inside it       *)
(*   Select32R64        byte range of the i-th element of a positional     *)
(*                      array, from select index + rank index + word scan  *)
(*   GetNodeB           getNode: node kind, bit range [from, to) of its    *)
(*                      label bitmap (BigInnerOffset + 17*i +              *)
(*                      ShortMinusInner*j), the short-table lookup, the    *)
(*                      step or prefix of the node                         *)
(*   LeftChildB         getLeftChildID: rank of the label bit              *)
(*   GetIDB             the descent of GetID                               *)
(*   SearchIDB          searchID with leftMost / rightMost                 *)
(*   ScanB              getGEPath + the iterator: next leaf via the rank   *)
(*                      of a node's last label, keys re-assembled from     *)
(*                      stored prefixes, label bit positions and leaf      *)
(*                      tails, values from the leaf array                  *)
(*                                                                         *)
(* The design check MC_Reader shows, in every small world, for every       *)
(* option combination and every query string, that GetIDB on Encode(c)     *)
(* returns exactly what GetIDm returns on the node table: the stored form  *)
(* with its indexes is a refinement of the table under the reader's        *)
(* arithmetic.  (Level B is bound to the code by the `proto` events: the   *)
(* real message equals Encode(c) field by field.)                          *)
(***************************************************************************)
EXTENDS SlimEncode

\* ones in bm below position p, computed the way the code does: index entry of the
\* 64-bit word (or 128-bit pair) + ones inside it below p
OnesIn(bits, lo, p) == Cardinality({b \in bits : b >= lo /\ b < p})
Rank64B(bm, i) ==
  LET w == i \div 64 IN <<bm.rank[w + 1] + OnesIn(bm.bits, 64 * w, i), IF i \in bm.bits THEN 1 ELSE 0>>
Rank128B(bm, i) ==
  LET x == i \div 128 IN <<bm.rank[x + 1] + OnesIn(bm.bits, 128 * x, i), IF i \in bm.bits THEN 1 ELSE 0>>

\* position of the i-th (0-based) one and of the next one: Select32R64
RECURSIVE FindWord(_, _, _)
FindWord(bm, w, i) == IF bm.rank[w + 2] <= i THEN FindWord(bm, w + 1, i) ELSE w
NthOneFrom(bits, lo, k) ==          \* k-th (0-based) one at or after lo
  LET later == {b \in bits : b >= lo} IN SetToSortSeq(later, <)[k + 1]
Select32R64B(bm, i) ==
  LET w0 == bm.sel[(i \div 32) + 1] \div 64
      w  == FindWord(bm, w0, i)
      a  == NthOneFrom(bm.bits, 64 * w, i - bm.rank[w + 1])
      b  == NthOneFrom(bm.bits, a + 1, 0)
  IN <<a, b>>

\* ---- getNode ------------------------------------------------------------------
GetNodeB(m, id) ==
  LET r == Rank64B(m.nodetype, id)
      ith == r[1] IN
  IF r[2] = 0 THEN [inner |-> FALSE, ithLeaf |-> id - ith]
  ELSE
    LET big == ith < m.bigcnt
        sr  == IF big THEN <<0, 0>> ELSE Rank64B(m.shortbm, ith)
        from == IF big THEN ith * 257
                ELSE (257 - 17) * m.bigcnt + 17 * ith + (m.shortsize - 17) * sr[1]
        short == ~big /\ sr[2] = 1
        to   == from + (IF big THEN 257 ELSE IF short THEN m.shortsize ELSE 17)
        \* a short node: the stored bits are an index into the table
        sval == IF short THEN FoldLeft(LAMBDA acc, b : acc + (IF from + b \in m.inners.bits THEN Pow2(b) ELSE 0),
                                      0, [b \in 1..m.shortsize |-> b - 1]) ELSE 0
        bm17 == IF short THEN m.shorttable[sval + 1] ELSE 0
        hasp == m.ip.eltcnt > 0 /\ (ith \in m.ip.presence.bits)
        ithp == IF hasp THEN Rank128B(m.ip.presence, ith)[1] ELSE 0
        rng  == IF hasp /\ m.ip.fixed = 0 THEN Select32R64B(m.ip.position, ithp) ELSE <<0, 0>>
        pfx  == IF hasp /\ m.ip.fixed = 0 THEN SubSeq(m.ip.bytes, rng[1] + 1, rng[2]) ELSE <<>>
        step == IF hasp /\ m.ip.fixed # 0 THEN m.ip.bytes[2 * ithp + 1] * 256 + m.ip.bytes[2 * ithp + 2] ELSE 0
    IN [inner |-> TRUE, big |-> big, short |-> short, from |-> from, to |-> to, bm17 |-> bm17,
        hasPrefix |-> hasp /\ m.ip.fixed = 0, prefix |-> pfx, step |-> step]

\* number of payload half-bytes of a stored bit-string (bitstr.Len / 4)
PrefixLenNibs(p) == 2 * (Len(p) - 1) - (IF p[Len(p)] = 240 THEN 1 ELSE 0)

\* getLeftChildID: <<id of the child left of the label, label bit set?>>
LeftChildB(m, n, c) ==
  IF n.short
  THEN LET r0 == Rank128B(m.inners, n.from)[1]
           bits == BitsOfNum(n.bm17, 0) IN
       <<r0 + Cardinality({b \in bits : b < c}), IF c \in bits THEN 1 ELSE 0>>
  ELSE Rank128B(m.inners, n.from + c)

\* leaf tail of the ithLeaf-th leaf, <<>> if none
LeafTailB(m, ithLeaf) ==
  IF ~m.lp.present \/ ithLeaf \notin m.lp.presence.bits THEN <<>>
  ELSE LET k == Rank64B(m.lp.presence, ithLeaf)[1]
           rng == Select32R64B(m.lp.position, k)
       IN SubSeq(m.lp.bytes, rng[1] + 1, rng[2])

\* compare the query from byte i\div 2 on with a stored bit-string (StrCmpUpto)
CmpPrefixB(q, i, p) ==
  LET nn == PrefixLenNibs(p)
      a  == i - (i % 2)
      pn == NibsOfBytes(SubSeq(p, 1, Len(p) - 1))
      RECURSIVE Go(_)
      Go(x) == IF x >= nn THEN 0
               ELSE IF a + x >= NibLen(q) THEN -1
               ELSE IF Nib(q, a + x) < pn[x + 1] THEN -1
               ELSE IF Nib(q, a + x) > pn[x + 1] THEN 1
               ELSE Go(x + 1)
  IN Go(0)

\* ---- GetID on the stored form; node ids are the code's (0-based), -1 = not found
RECURSIVE GetIDBFrom(_, _, _, _)
GetIDBFrom(m, q, id, i) ==
  LET n == GetNodeB(m, id) IN
  IF ~n.inner
  THEN IF ~m.lp.present THEN id
       ELSE LET tail == LeafTailB(m, n.ithLeaf) IN
            IF i = NibLen(q) THEN (IF Len(tail) > 0 THEN -1 ELSE id)
            ELSE IF Len(tail) = 0 THEN -1
            ELSE IF tail = TailFrom(q, i) THEN id ELSE -1
  ELSE
    LET pre == IF n.hasPrefix THEN CmpPrefixB(q, i, n.prefix) ELSE 0
        i2  == IF n.hasPrefix THEN (i - (i % 2)) + PrefixLenNibs(n.prefix) ELSE i + n.step
        w   == IF n.big THEN 2 ELSE 1
    IN IF pre # 0 \/ i2 > NibLen(q) THEN -1
       ELSE LET c  == Label(q, i2, w)
                lc == LeftChildB(m, n, c)
            IN IF lc[2] = 0 THEN -1
               ELSE IF i2 = NibLen(q) THEN lc[1] + 1
               ELSE GetIDBFrom(m, q, lc[1] + 1, i2 + w)

GetIDB(m, q) == GetIDBFrom(m, q, 0, 0)

\* ---- searchID, leftMost, rightMost on the stored form --------------------------------
OnesUpTo(m, p) == LET r == Rank128B(m.inners, p) IN r[1] + r[2]     \* ones at positions <= p

RECURSIVE LeftMostB(_, _)
LeftMostB(m, id) ==
  LET n == GetNodeB(m, id) IN IF ~n.inner THEN id ELSE LeftMostB(m, Rank128B(m.inners, n.from)[1] + 1)
RECURSIVE RightMostB(_, _)
RightMostB(m, id) ==
  LET n == GetNodeB(m, id) IN IF ~n.inner THEN id ELSE RightMostB(m, OnesUpTo(m, n.to - 1))

\* the descent; returns <<l, eq, r>> before rightMost/leftMost, ids 0-based, -1 none
RECURSIVE SearchBFrom(_, _, _, _, _, _)
SearchBFrom(m, q, id, i, L, R) ==
  LET n == GetNodeB(m, id) IN
  IF ~n.inner
  THEN LET tail == IF m.lp.present THEN LeafTailB(m, n.ithLeaf) ELSE <<>>
           r == IF m.lp.present THEN Cmp(TailFrom(q, i), tail) ELSE 0 IN
       IF r < 0 THEN <<L, -1, id>> ELSE IF r > 0 THEN <<id, -1, R>> ELSE <<L, id, R>>
  ELSE
    LET pre == IF n.hasPrefix THEN CmpPrefixB(q, i, n.prefix) ELSE 0
        i2  == IF n.hasPrefix THEN (i - (i % 2)) + PrefixLenNibs(n.prefix) ELSE i + n.step
        w   == IF n.big THEN 2 ELSE 1
    IN IF pre < 0 THEN <<L, -1, id>>
       ELSE IF pre > 0 THEN <<id, -1, R>>
       ELSE IF i2 > NibLen(q) THEN <<L, -1, id>>
       ELSE
         LET c  == Label(q, i2, w)
             lc == LeftChildB(m, n, c)
             ch == lc[1] + lc[2]
             lmost == Rank128B(m.inners, n.from)[1] + 1
             rmost == OnesUpTo(m, n.to - 1)
             L2 == IF lc[1] >= lmost /\ lc[1] <= rmost THEN lc[1] ELSE L
             R2 == IF ch + 1 >= lmost /\ ch + 1 <= rmost THEN ch + 1 ELSE R
         IN IF lc[2] = 0 THEN <<L2, -1, R2>>
            ELSE IF i2 = NibLen(q) THEN <<L2, ch, R2>>       \* the empty-label leaf: no tail
            ELSE SearchBFrom(m, q, ch, i2 + w, L2, R2)

SearchIDB(m, q) ==
  LET r == SearchBFrom(m, q, 0, 0, -1, -1) IN
  << IF r[1] = -1 THEN -1 ELSE RightMostB(m, r[1]), r[2], IF r[3] = -1 THEN -1 ELSE LeftMostB(m, r[3]) >>

\* ---- scanning on the stored form (slimtrie_scan.go: getGEPath, newIter, scanStackElt) ----
\* the labels of inner node n in ascending order (label bit positions inside the node:
\* 0 = the empty label, b = half-byte or byte value b - 1)
LabelsB(m, n) ==
  SetToSortSeq(IF n.short THEN BitsOfNum(n.bm17, 0) ELSE {b - n.from : b \in {x \in m.inners.bits : x >= n.from /\ x < n.to}}, <)
FirstChildB(m, n) == Rank128B(m.inners, n.from)[1] + 1
LastChildB(m, n)  == OnesUpTo(m, n.to - 1)

RECURSIVE LeftMostPathB(_, _)
LeftMostPathB(m, id) ==
  LET n == GetNodeB(m, id) IN IF ~n.inner THEN <<id>> ELSE <<id>> \o LeftMostPathB(m, FirstChildB(m, n))

\* getGEPath: descent with the right-hand candidate
RECURSIVE GEBFrom(_, _, _, _, _, _, _)
GEBFrom(m, q, id, i, path, rID, rLen) ==
  LET n == GetNodeB(m, id) IN
  IF ~n.inner THEN [eq |-> id, i |-> i, path |-> path, rID |-> rID, rLen |-> rLen, atLeaf |-> TRUE, ith |-> n.ithLeaf]
  ELSE
    LET pre == IF n.hasPrefix THEN CmpPrefixB(q, i, n.prefix) ELSE 0
        i2  == IF n.hasPrefix THEN (i - (i % 2)) + PrefixLenNibs(n.prefix) ELSE i
    IN IF pre < 0 THEN [eq |-> -1, i |-> i, path |-> path, rID |-> id, rLen |-> Len(path), atLeaf |-> FALSE, ith |-> 0]
       ELSE IF pre > 0 THEN [eq |-> -1, i |-> i, path |-> path, rID |-> rID, rLen |-> rLen, atLeaf |-> FALSE, ith |-> 0]
       ELSE
         LET path2 == Append(path, id)
             w     == IF n.big THEN 2 ELSE 1
             c     == IF i2 < NibLen(q) THEN Label(q, i2, w) ELSE 0
             lc    == LeftChildB(m, n, c)
             ch    == lc[1] + lc[2]
             more  == ch + 1 <= LastChildB(m, n)
             rID2  == IF more THEN ch + 1 ELSE rID
             rLen2 == IF more THEN Len(path2) ELSE rLen
         IN IF lc[2] = 0 THEN [eq |-> -1, i |-> i2, path |-> path2, rID |-> rID2, rLen |-> rLen2, atLeaf |-> FALSE, ith |-> 0]
            ELSE IF i2 = NibLen(q) THEN [eq |-> ch, i |-> i2, path |-> path2, rID |-> rID2, rLen |-> rLen2, atLeaf |-> FALSE, ith |-> 0]
            ELSE GEBFrom(m, q, ch, i2 + w, path2, rID2, rLen2)

GEPathB(m, q) ==
  IF m.nodetype.bits = {} /\ m.nodetype.nwords <= 0 THEN [path |-> <<>>, eq |-> FALSE]
  ELSE
    LET d == GEBFrom(m, q, 0, 0, <<>>, -1, -1)
        r == IF d.eq = -1 THEN 2
             ELSE Cmp(TailFrom(q, d.i), IF d.atLeaf THEN LeafTailB(m, d.ith) ELSE <<>>)
    IN IF d.eq # -1 /\ r <= 0 THEN [path |-> Append(d.path, d.eq), eq |-> (r = 0)]
       ELSE IF d.rID = -1 THEN [path |-> <<>>, eq |-> FALSE]
       ELSE [path |-> SubSeq(d.path, 1, d.rLen) \o LeftMostPathB(m, d.rID), eq |-> FALSE]

\* next(): the deepest parent on the path that has a further child; <<>> when exhausted
RECURSIVE NextPathB(_, _, _)
NextPathB(m, path, j) ==
  IF j < 1 THEN <<>>
  ELSE LET n == GetNodeB(m, path[j]) IN
       IF path[j + 1] + 1 <= LastChildB(m, n)
       THEN SubSeq(path, 1, j) \o LeftMostPathB(m, path[j + 1] + 1)
       ELSE NextPathB(m, path, j - 1)

\* the key re-assembled from stored prefixes, labels and the leaf tail, in half-bytes
RECURSIVE KeyNibsB(_, _, _, _)
KeyNibsB(m, path, j, nibs) ==
  LET n == GetNodeB(m, path[j]) IN
  IF ~n.inner
  THEN [x \in 1..((Len(nibs) - (Len(nibs) % 2)) \div 2) |-> 16 * nibs[2 * x - 1] + nibs[2 * x]]
       \o LeafTailB(m, n.ithLeaf)
  ELSE
    LET a     == Len(nibs) - (Len(nibs) % 2)
        pn    == IF n.hasPrefix THEN NibsOfBytes(SubSeq(n.prefix, 1, Len(n.prefix) - 1)) ELSE <<>>
        withp == IF n.hasPrefix THEN SubSeq(nibs, 1, a) \o SubSeq(pn, 1, PrefixLenNibs(n.prefix)) ELSE nibs
        lb    == LabelsB(m, n)[path[j + 1] - FirstChildB(m, n) + 1]
        withl == IF lb = 0 THEN withp
                 ELSE IF n.big THEN withp \o <<(lb - 1) \div 16, (lb - 1) % 16>>
                 ELSE Append(withp, lb - 1)
    IN KeyNibsB(m, path, j + 1, withl)

\* VLenArray.get on the leaf values
LeafValueB(m, ith) ==
  IF ~m.leaves.present \/ ith \notin m.leaves.presence.bits THEN <<>>
  ELSE LET k == Rank64B(m.leaves.presence, ith)[1] IN
       IF m.leaves.position.nwords < 0 THEN SubSeq(m.leaves.bytes, k * m.leaves.fixed + 1, (k + 1) * m.leaves.fixed)
       ELSE LET rng == Select32R64B(m.leaves.position, k) IN SubSeq(m.leaves.bytes, rng[1] + 1, rng[2])

RECURSIVE ScanFromPathB(_, _)
ScanFromPathB(m, path) ==
  IF path = <<>> THEN <<>>
  ELSE LET lf == path[Len(path)] IN
       <<[key |-> KeyNibsB(m, path, 1, <<>>), leaf |-> lf, val |-> LeafValueB(m, GetNodeB(m, lf).ithLeaf)]>>
       \o ScanFromPathB(m, NextPathB(m, path, Len(path) - 1))

\* what NewIter(start, inclStart, withValue = true) yields until exhaustion
ScanB(m, start, inclStart) ==
  LET g == GEPathB(m, start) IN
  IF g.path = <<>> THEN <<>>
  ELSE ScanFromPathB(m, IF g.eq /\ ~inclStart THEN NextPathB(m, g.path, Len(g.path) - 1) ELSE g.path)

\* ---- the level table on the stored form (slimtrie_level.go: initLevels) ------------------
\* from the root, walk to the first node of the next level -- the left-most child of the
\* first inner node at or after the current level's first node -- until no inner node is left
OnesAllR64(bm)  == Cardinality(bm.bits)
RECURSIVE LevelWalkB(_, _, _)
LevelWalkB(m, cur, totalInner) ==
  LET nextInner == Rank64B(m.nodetype, cur)[1]
      here == <<cur, nextInner, cur - nextInner>> IN
  IF nextInner = totalInner THEN <<here>>
  ELSE \* getIthInnerFrom(nextInner): the bit range of the nextInner-th inner node
       LET big  == nextInner < m.bigcnt
           sr   == IF big THEN <<0, 0>> ELSE Rank64B(m.shortbm, nextInner)
           from == IF big THEN nextInner * 257
                   ELSE (257 - 17) * m.bigcnt + 17 * nextInner + (m.shortsize - 17) * sr[1]
       IN <<here>> \o LevelWalkB(m, Rank128B(m.inners, from)[1] + 1, totalInner)

LevelsB(m) ==
  IF m.nodetype.nwords <= 0 THEN << <<0, 0, 0>> >>
  ELSE LET ti    == OnesAllR64(m.nodetype)
           total == IF ti > 0 THEN Cardinality(m.inners.bits) + 1 ELSE 1
       IN LevelWalkB(m, 0, ti) \o << <<total, ti, total - ti>> >>
=============================================================================
