---------------------------- MODULE Trace_Lookup ----------------------------
(***************************************************************************)
(* Trace validation for the lookup family (C01 C02 C03 C09 C10 C14 C18 and  *)
(* the construction outcome of C08): every line of an ndjson trace recorded *)
(* from the real library is one step of SlimAPI; the logged results are     *)
(* judged in both layers (SlimJudge).                                       *)
(***************************************************************************)
EXTENDS SlimAPI, Json

CONSTANTS TraceFile, LayerM

VARIABLE l

Trace == ndJsonDeserialize(TraceFile)

TInit == l = 1 /\ inst = NoInst /\ iters = NoIters

Ev(name) == l <= Len(Trace) /\ Trace[l].ev = name /\ l' = l + 1

\* Observations on an instance loaded from a HISTORICAL layout are judged by the
\* same predicates but belong to C06 ("answers exactly as the index it encodes").
PC(prop, what) == IF inst.live /\ inst.legacy THEN "P:C06:" \o prop \o "-" \o what ELSE "P:" \o prop \o ":" \o what

TNew ==
  /\ Ev("new")
  /\ LET e == Trace[l] IN
     /\ New(e.keys, e.vals, e.hasvals, e.opt, e.err = "" /\ e.pan = "")
     /\ Report(l, "P:C08:outcome", IF OutcomeAllowed(e.keys, e.err, e.pan) THEN {} ELSE {1})
     \* the harness holds an instance iff the call returned one
     /\ LayerM => Report(l, "M:outcome", LET acc == e.err = "" /\ e.pan = "" IN
                                         IF acc # (IF acc THEN NewOutcome(e.keys, inst') = ""
                                                   ELSE ModelAccepts(e.keys, e.vals, e.hasvals, e.opt))
                                         THEN {1} ELSE {})
     /\ Report(l, "W:firstdisorder",
               IF e.err = "order" /\ "dis" \in DOMAIN e /\ e.dis # FirstDisorder(e.keys) THEN {1} ELSE {})

TTable ==
  /\ Ev("table") /\ Read
  /\ LET e == Trace[l] IN
     /\ inst.live
     /\ LayerM => Report(l, "M:table", MTable(inst, e))
     /\ LayerM => Report(l, "M:short", MShort(inst, e))
\* the stored message, field by field, is the encoding of the Model table (Level B)
TProto ==
  /\ Ev("proto") /\ Read
  /\ LET e == Trace[l] IN
     /\ inst.live
     /\ (LayerM /\ inst.lbenc) =>
          Report(l, "M:encoding",
                 IF Len(inst.nodes) = 0 THEN (IF e.empty = 1 THEN {} ELSE {"non-empty"})
                 ELSE IF e.empty = 1 THEN {"empty"} ELSE EncodingDiff(inst, e))
TTableErr == Ev("tableerr") /\ Read /\ Report(l, "M:undecodable", {1})

TStat ==
  /\ Ev("stat")
  /\ LET e == Trace[l]
         bad == StatBad(inst, e) IN
     /\ inst.live
     /\ Report(l, PC("C18", "stat"), bad)
     /\ Report(l, "P:C18:roundtrip", IF inst.loaded /\ inst.stat # <<e.levels, e.keycnt, e.nodecnt>> THEN {1} ELSE {})
     /\ LayerM => Report(l, "M:levels", StatDrift(inst, e))
     /\ inst' = [inst EXCEPT !.stat = <<e.levels, e.keycnt, e.nodecnt>>]

Common(e, n) ==
  /\ Report(l, "P:C10:panic", C10panic(e))
  /\ Report(l, "P:C10:agree", C10agree(inst, e, n))
  /\ Report(l, "P:C10:supplied", C10supplied(inst, e, n))
  /\ Report(l, "P:C14:geti", C14(inst, e, n))

\* the answers of a batch, as one value
Ans(e) == <<e.ids, e.gets, e.rgets, e.srch, e.geti, e.pans>>

\* After LoadOwn the same batches are observed again on the loaded trie.  If the
\* answers equal those of the fresh trie (kept in inst.lastk / inst.lastq) they
\* have been judged already; if not, that is C05's round-trip clause failing and
\* the batch is judged in full.
JudgeK(e) ==
  /\ Report(l, "P:C05:answers", IF inst.loaded THEN {1} ELSE {})
  /\ Report(l, PC("C01", "get"), KC01get(inst, e))
  /\ Report(l, PC("C01", "id"), KC01id(inst, e))
  /\ Report(l, PC("C02", "rget"), KC02(inst, e))
  /\ Report(l, PC("C09", "search"), KC09(inst, e))
  \* an accepted input whose own keys are not found is "silently mis-indexed" (C08)
  /\ Report(l, "P:C08:misindexed", KC01get(inst, e) \cup KC01id(inst, e) \cup KC02(inst, e))
  /\ Common(e, Len(inst.ks))
  /\ LayerM => Report(l, "M:answers", MAnswers(inst, e, inst.ks))

TObsK ==
  /\ Ev("obsk")
  /\ LET e == Trace[l] IN
     /\ inst.live
     /\ Len(e.ids) = Len(inst.ks)
     /\ inst' = [inst EXCEPT !.lastk = Ans(e)]
     /\ IF inst.loaded /\ inst.lastk = Ans(e) THEN TRUE ELSE JudgeK(e)

JudgeQ(e) ==
  LET wb == WitnessBad(inst, e) IN
  /\ Report(l, "P:C05:answers", IF inst.loaded /\ inst.lastq # <<>> /\ inst.lastq[1] = e.qs THEN {1} ELSE {})
  /\ Report(l, "W:floor", wb)
  /\ wb = {} =>
       /\ Report(l, PC("C01", "get"), QC01(inst, e))
       /\ Report(l, PC("C09", "search"), QC09(inst, e))
       /\ IsComplete(inst.o) =>
            /\ Report(l, PC("C03", "get"), QC03get(inst, e))
            /\ Report(l, PC("C03", "rget"), QC03rget(inst, e))
            /\ Report(l, PC("C03", "search"), QC03search(inst, e))
  /\ Common(e, Len(e.qs))
  /\ LayerM => Report(l, "M:answers", MAnswers(inst, e, e.qs))

TObsQ ==
  /\ Ev("obsq")
  /\ LET e == Trace[l] IN
     /\ inst.live
     /\ inst' = [inst EXCEPT !.lastq = <<e.qs, Ans(e)>>]
     /\ IF inst.loaded /\ inst.lastq = <<e.qs, Ans(e)>> THEN TRUE ELSE JudgeQ(e)

TLoad ==
  /\ Ev("load")
  /\ LET e == Trace[l] IN
     /\ Report(l, "P:C05:load", IF e.err # "" \/ e.pan # "" THEN {1} ELSE {})
     /\ IF e.err = "" /\ e.pan = "" THEN LoadOwn ELSE inst' = NoInst

TRender ==
  /\ Ev("render")
  /\ LET e == Trace[l] IN
     /\ inst.live
     /\ Report(l, "P:C19:render", RenderBad(inst, e))
     /\ Report(l, "P:C19:roundtrip", IF inst.loaded /\ inst.lastrender # <<>> /\ inst.lastrender # <<e.text, e.lines>> THEN {1} ELSE {})
     /\ LayerM => Report(l, "M:render", RenderDrift(inst, e))
     /\ inst' = [inst EXCEPT !.lastrender = <<e.text, e.lines>>]

TMcheck ==
  /\ Ev("mcheck") /\ Read
  /\ LET e == Trace[l] IN
     Report(l, "P:C05:marshal",
            (IF e.pan # "" THEN {"panic"} ELSE {})
            \cup (IF e.pan = "" /\ e.mlen # e.psize THEN {"size"} ELSE {})
            \cup (IF e.pan = "" /\ e.twice # 1 THEN {"second-call-differs"} ELSE {})
            \cup (IF e.pan = "" /\ e.rebuilt # 1 THEN {"second-build-differs"} ELSE {})
            \cup (IF e.pan = "" /\ e.remarshal # 1 THEN {"remarshal-differs"} ELSE {})
            \cup (IF e.pan = "" /\ e.protomarshal # 1 THEN {"proto.Marshal-differs"} ELSE {}))

\* SlimIndex = trie (default options, 64-bit offsets as values) composed with a
\* reader that returns the record only if the block at the offset holds the key.
\* e.ans[j] = <<found, record number>>; records are numbered like the keys.
IndexBad(e) ==
  LET n == Len(e.keys)
      nq == Len(e.qs)
      wb == {j \in 1..nq :
               LET f == e.fp[j] IN
               ~ /\ f \in 0..n
                 /\ (f = 0 \/ Le(e.keys[f], e.qs[j]))
                 /\ (f = n \/ Lt(e.qs[j], e.keys[f + 1]))}
      IsRec(j) == e.fp[j] > 0 /\ e.keys[e.fp[j]] = e.qs[j]
  IN [witness |-> wb,
      build   |-> IF e.err # "" \/ e.pan # "" THEN {1} ELSE {},
      \* an exact map: the stored record for every indexed key, not-found otherwise
      exact   |-> IF wb # {} \/ e.err # "" THEN {} ELSE
                  {j \in 1..nq : e.ans[j] # (IF IsRec(j) THEN <<1, e.fp[j]>> ELSE <<0, 0>>)}]
\* Layer M: the Model trie followed by the Model reader
IndexDrift(e) ==
  LET n == Len(e.keys)
      nodes == BuildNodes(e.keys, e.offs, TRUE, TRUE, TRUE)
      o == [innp |-> FALSE, leafp |-> FALSE]
      Reader(off, q) == LET hits == {i \in 1..n : e.offs[i] = off /\ e.keys[i] = q} IN
                        IF hits = {} THEN <<0, 0>> ELSE <<1, CHOOSE i \in hits : TRUE>>
  IN {j \in 1..Len(e.qs) :
        LET g == IF e.mode = "get" THEN ModelGet(e.keys, nodes, o, e.offs, TRUE, e.qs[j])
                 ELSE ModelRangeGet(e.keys, nodes, o, e.offs, TRUE, e.qs[j])
        IN e.ans[j] # (IF g[1] = 0 THEN <<0, 0>> ELSE Reader(g[2], e.qs[j]))}

TIndex ==
  /\ Ev("index")
  /\ inst' = NoInst
  /\ LET e == Trace[l]
         b == IndexBad(e) IN
     /\ Report(l, "W:floor", b.witness)
     /\ Report(l, "P:C12:build", b.build)
     /\ Report(l, "P:C12:exact", b.exact)
     /\ (LayerM /\ e.err = "" /\ e.pan = "" /\ e.big = 0) => Report(l, "M:index", IndexDrift(e))

\* ---- historical layouts (C06) ------------------------------------------------
\* what a stream of the layout encodes, as a content record: three-section
\* layouts hold the conversion of the old trie = the current table with the 257-bit
\* latch clear, every key, steps only (MC_Legacy); a 0.5.10/0.5.11 stream holds the
\* trie its options describe.
LegacyContent(e) ==
  IF e.v3 = 1
  THEN [Content(e.keys, e.vals, e.hasvals, <<0, 0, 0, 0>>, FALSE) EXCEPT !.legacy = TRUE]
  \* a loaded 0.5.10 stream keeps its word-granular select index: its stored form is
  \* not the one Encode describes (answers are the same), so Level B is not compared
  ELSE [Content(e.keys, e.vals, e.hasvals, e.opt, TRUE) EXCEPT !.legacy = TRUE, !.lbenc = FALSE]

TLegacy ==
  /\ Ev("legacy")
  /\ LET e == Trace[l] IN
     /\ Report(l, "P:C06:load", IF e.err # "" \/ e.pan # "" THEN {1} ELSE {})
     /\ inst' = IF e.err = "" /\ e.pan = "" THEN LegacyContent(e) ELSE NoInst
     \* Level C: the bytes the harness's writer produced are the stream SlimWireOld defines
     /\ LayerM => Report(l, "M:legacy-wire",
                         IF Len(e.wire) = 0 THEN {}
                         ELSE IF e.v3 = 1
                              THEN (IF e.wire # V3StreamH(OldTrie(e.keys), e.vals, e.patch, e.hpatch) THEN {"three-section"} ELSE {})
                              ELSE (IF e.wire # Old0510Stream(LegacyContent(e), e.minor) THEN {"0.5.1x"} ELSE {}))

\* the writers of the harness reproduce the archived fixtures byte for byte
TCalibration ==
  /\ Ev("calibration") /\ UNCHANGED inst
  /\ LET e == Trace[l] IN
     /\ Report(l, "W:calibration-three-section", IF e.v3bad # 0 \/ e.v3ok = 0 THEN {e.v3bad} ELSE {})
     /\ Report(l, "I:calibration-0.5.10", IF e.v10bad # 0 THEN {e.v10bad} ELSE {})

TScan ==
  /\ Ev("scan") /\ Read
  /\ LET e == Trace[l] IN
     /\ inst.live
     /\ Report(l, PC("C04", e.api), ScanBad(inst, e))
     /\ LayerM => Report(l, "M:scan", ScanDrift(inst, e))

\* ---- large tries: Layer P with neighbours supplied by the harness ---------------
\* per item: q, the answers, lo = greatest retained key <= q (with value lov),
\* hi = least retained key > q (hiv), predv = value of the greatest retained key < q,
\* indexed/kv = q is an input key and its own value (retained or not)
BigBad(e) ==
  LET o == NormOpt(e.opt)
      n == Len(e.items)
      I(j) == e.items[j]
      Exact(j) == I(j).haslo = 1 /\ I(j).lo = I(j).q
      wb == {j \in 1..n : ~ /\ (I(j).haslo = 1 => Le(I(j).lo, I(j).q))
                             /\ (I(j).hashi = 1 => Lt(I(j).q, I(j).hi))}
      want(j) == <<I(j).predv, IF Exact(j) THEN I(j).lov ELSE NilV, I(j).hiv>>
  IN [witness |-> wb,
      panic   |-> {j \in 1..n : I(j).pan # ""},
      c01     |-> {j \in 1..n : Exact(j) /\ (I(j).get # <<1, I(j).lov>> \/ I(j).id < 0)},
      c02     |-> {j \in 1..n : I(j).indexed = 1 /\ I(j).rget # <<1, I(j).kv>>},
      c09     |-> {j \in 1..n : Exact(j) /\ I(j).srch # want(j)},
      c03     |-> IF ~IsComplete(o) THEN {} ELSE
                  {j \in 1..n : \/ I(j).get # (IF Exact(j) THEN <<1, I(j).lov>> ELSE <<0, NilV>>)
                                \/ (I(j).id >= 0) # Exact(j)
                                \/ I(j).rget # (IF I(j).haslo = 1 THEN <<1, I(j).lov>> ELSE <<0, NilV>>)
                                \/ I(j).srch # want(j)},
      c10     |-> {j \in 1..n : \/ (I(j).get[1] = 1) # (I(j).id >= 0)
                                \/ (e.hasvals /\ (I(j).get[1] = 1) # (I(j).srch[2] # NilV))
                                \/ (I(j).get[1] = 1 /\ I(j).rget # I(j).get)},
      c14     |-> {j \in 1..n : I(j).geti[1] # -1 /\ I(j).geti # I(j).get},
      c18     |-> (IF e.statpan # "" \/ e.keycnt # e.nret THEN {1} ELSE {})
                  \cup (IF e.statpan = "" THEN
                          LET lv == e.stat3[3]  nl == Len(lv) IN
                          IF nl = 0 THEN {2}
                          ELSE (IF e.nodecnt # lv[nl][1] \/ lv[nl][3] # e.nret \/ lv[1] # <<0, 0, 0>> THEN {3} ELSE {})
                               \cup (IF \E i \in 1..nl : lv[i][1] # lv[i][2] + lv[i][3] THEN {4} ELSE {})
                               \cup (IF \E i \in 1..(nl - 1) : \E x \in 1..3 : lv[i][x] > lv[i+1][x] THEN {5} ELSE {})
                        ELSE {}),
      \* a loaded trie answers exactly as the fresh one did (false positives included), and
      \* reports the same statistics
      c05     |-> {j \in 1..n : I(j).fresh # <<I(j).id, I(j).get, I(j).rget, I(j).srch>>}
                  \cup (IF e.stat3 # e.freshstat THEN {0} ELSE {})]

\* a large trie loaded from a historical layout reports under C06 (like PC for small ones)
BC(e, prop, what) == IF e.legacy = 1 THEN "P:C06:" \o prop \o "-" \o what ELSE "P:" \o prop \o ":" \o what
TObsBig ==
  /\ Ev("obsbig") /\ inst' = NoInst
  /\ LET e == Trace[l]
         b == BigBad(e) IN
     /\ Report(l, "W:neighbours", b.witness)
     /\ Report(l, BC(e, "C10", "panic"), b.panic)
     /\ Report(l, BC(e, "C01", "get"), b.c01)
     /\ Report(l, BC(e, "C02", "rget"), b.c02)
     /\ Report(l, BC(e, "C09", "search"), b.c09)
     /\ Report(l, BC(e, "C03", "get"), b.c03)
     /\ Report(l, BC(e, "C10", "agree"), b.c10)
     /\ Report(l, BC(e, "C14", "geti"), b.c14)
     /\ Report(l, BC(e, "C18", "stat"), b.c18)
     /\ Report(l, "P:C05:answers", b.c05)
TBigFail ==
  /\ Ev("bigfail") /\ inst' = NoInst
  /\ Report(l, IF "legacy" \in DOMAIN Trace[l] THEN "P:C06:load" ELSE "P:C08:outcome", {1})

\* large renderings (C19, Layer P only): every node id once, the leaf column = the retained
\* values in key order (e.expvals: computed by the harness from its own input), loaded = fresh
RenderBigBad(e) ==
  LET n == Len(e.ids) IN
  (IF e.pan # "" \/ e.statpan # "" THEN {"panic"} ELSE {})
  \cup (IF e.pan = "" /\ e.noid # 0 THEN {"line-without-node-id"} ELSE {})
  \cup (IF e.pan = "" /\ (n # e.nodecnt \/ {e.ids[x] : x \in 1..n} # 0..(n - 1)) THEN {"each-node-once"} ELSE {})
  \cup (IF e.pan = "" /\ (e.badval # 0 \/ e.leafvals # e.expvals) THEN {"leaf-values"} ELSE {})
TRenderBig ==
  /\ Ev("renderbig") /\ inst' = NoInst
  /\ LET e == Trace[l] IN
     /\ Report(l, "P:C19:render", RenderBigBad(e))
     /\ Report(l, "P:C19:roundtrip", IF e.sameasfresh = 0 THEN {1} ELSE {})

TModes ==
  /\ Ev("modes")
  /\ inst' = NoInst
  /\ LET e == Trace[l]
         b == ModesBad(e) IN
     /\ Report(l, "W:floor", b.witness)
     /\ Report(l, "P:C08:outcome", b.build)
     /\ Report(l, "P:C13:refine", b.refine)
     /\ Report(l, "P:C13:exact", b.exact)
     /\ Report(l, "P:C13:onkeys", b.onkeys)
     /\ LayerM => Report(l, "M:modes", ModesDrift(e))

TNext == UNCHANGED iters /\ (TNew \/ TProto \/ TTable \/ TTableErr \/ TStat \/ TObsK \/ TObsQ \/ TLoad \/ TModes \/ TRender \/ TMcheck \/ TIndex \/ TLegacy \/ TCalibration \/ TScan \/ TObsBig \/ TBigFail \/ TRenderBig)

\* every line consumed: l - 1 = Len(Trace) in the last state
Accepted == TLCGet("stats").diameter - 1 = Len(Trace)
=============================================================================
