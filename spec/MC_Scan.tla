------------------------------ MODULE MC_Scan ------------------------------
(***************************************************************************)
(* B1 design check of scanning (C04): in every small world, on the trie    *)
(* that stores complete keys, for EVERY string of the universe as start    *)
(* and both inclusivities, the Model's scan (getGEPath + depth-first walk  *)
(* with key re-assembly) yields exactly the retained keys in range, in     *)
(* order, each once, with the leaf of that key -- i.e. Ref's scan.         *)
(***************************************************************************)
EXTENDS Worlds

Inv ==
  LET nodes == TLCEval(Nodes)
      lp    == LeafPaths(nodes)
  IN
  \* the depth-first leaf order is the order of the retained keys, and every
  \* key is re-assembled exactly
  /\ Len(lp) = Len(R)
  /\ \A j \in 1..Len(R) :
       /\ ModelKeyOfPath(keys, nodes, Complete, lp[j]) = keys[R[j]]
       /\ nodes[lp[j][Len(lp[j])]].key = R[j]
  /\ \A s \in Strings : \A incl \in BOOLEAN :
       LET ms == ModelScan(keys, nodes, Complete, s, incl)
           rs == RefScanPos(keys, R, s, incl, FALSE, <<>>, FALSE)
       IN /\ Len(ms) = Len(rs)
          /\ \A x \in 1..Len(rs) : ms[x].key = keys[R[rs[x]]] /\ nodes[ms[x].leaf].key = R[rs[x]]
=============================================================================
