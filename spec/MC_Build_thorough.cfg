CONSTANTS
  BigMin = 2
  ShortCost = 64
  MaxShort = 10
  StepBits = 3
  Alphabet = {0, 255}
  MaxLen = 5
  MaxKeys = 3
INIT Init
NEXT Next
INVARIANT Inv
CHECK_DEADLOCK FALSE
