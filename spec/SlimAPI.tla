------------------------------ MODULE SlimAPI ------------------------------
(***************************************************************************)
(* The life cycle of a SlimTrie instance as a state machine.               *)
(*                                                                         *)
(*   inst   the instance under observation                                 *)
(*                                                                         *)
(* A content record (what `inner` holds) is built by Content: it carries   *)
(* the inputs, the retained keys and the Model node table.                 *)
(***************************************************************************)
EXTENDS SlimJudge

VARIABLE inst

NoInst == [live |-> FALSE]

Content(keys, vals, hasvals, o4, bigLatch) ==
  LET o  == NormOpt(o4)
      n  == Len(keys)
      R  == RetainedIdx(n, vals, hasvals, o.dd)
      rp0 == [i \in 1..n |-> 0]
      rp == FoldLeft(LAMBDA f, p : [f EXCEPT ![R[p]] = p], rp0, [p \in 1..Len(R) |-> p])
  IN [live |-> TRUE, ks |-> keys, vals |-> vals, hasvals |-> hasvals, o4 |-> o4, o |-> o,
      R |-> R, rp |-> rp,
      nodes |-> BuildNodes(keys, vals, hasvals, o.dd, bigLatch),
      valset |-> IF hasvals THEN {vals[i] : i \in 1..n} ELSE {NilV},
      loaded |-> FALSE, stat |-> <<>>, lastk |-> <<>>, lastq |-> <<>>]

\* NewSlimTrie: rejected with the out-of-order error iff the keys are not
\* strictly ascending; otherwise the instance holds the built content.
NewOutcome(keys) == IF StrictAsc(keys) THEN "" ELSE "order"

New(keys, vals, hasvals, o4) ==
  IF NewOutcome(keys) = ""
  THEN inst' = Content(keys, vals, hasvals, o4, TRUE)
  ELSE inst' = NoInst

\* Marshal followed by Unmarshal into a fresh instance: the same content
LoadOwn == inst.live /\ inst' = [inst EXCEPT !.loaded = TRUE]

\* read-only calls
Read == UNCHANGED inst
=============================================================================
