------------------------------ MODULE SlimAPI ------------------------------
(***************************************************************************)
(* The life cycle of a SlimTrie instance as a state machine.               *)
(*                                                                         *)
(*   inst   the instance under observation                                 *)
(*                                                                         *)
(* A content record (what `inner` holds) is built by Content: it carries   *)
(* the inputs, the retained keys and the Model node table.                 *)
(***************************************************************************)
EXTENDS SlimJudge

VARIABLES inst, iters

NoInst == [live |-> FALSE]

Content(keys, vals, hasvals, o4, bigLatch) ==
  LET o  == NormOpt(o4)
      n  == Len(keys)
      R  == RetainedIdx(n, vals, hasvals, o.dd)
      rp0 == [i \in 1..n |-> 0]
      rp == FoldLeft(LAMBDA f, p : [f EXCEPT ![R[p]] = p], rp0, [p \in 1..Len(R) |-> p])
  IN [live |-> TRUE, ks |-> keys, vals |-> vals, hasvals |-> hasvals, o4 |-> o4, o |-> o,
      R |-> R, rp |-> rp,
      nodes |-> BuildNodes(keys, vals, hasvals, o.dd, bigLatch),
      valset |-> IF hasvals THEN {vals[i] : i \in 1..n} ELSE {NilV},
      loaded |-> FALSE, stat |-> <<>>, lastk |-> <<>>, lastq |-> <<>>, lastrender |-> <<>>, legacy |-> FALSE, lbenc |-> TRUE]

\* NewSlimTrie is all-or-nothing (C08):
\*   "order"    the keys are not strictly ascending: rejected, no trie
\*   "toolong"  ascending, but without InnerPrefix a single-branch run does not
\*              fit the step counter (2^StepBits half-bytes): rejected rather than
\*              built into an index that cannot find its own keys
\*   ""         accepted: the instance holds the built content
MaxDocKeyLen == 16384
WithinDocLimits(keys) == \A i \in 1..Len(keys) : Len(keys[i]) <= MaxDocKeyLen

NewOutcome(keys, c) ==
  IF ~StrictAsc(keys) THEN "order"
  ELSE IF ~c.o.innp /\ ~StepsFit(c.nodes) THEN "toolong"
  ELSE ""

\* Layer P of C08 on a logged outcome: what the PROPERTY allows
OutcomeAllowed(keys, err, pan) ==
  IF ~StrictAsc(keys) THEN err = "order" /\ pan = ""
  ELSE IF WithinDocLimits(keys) THEN err = "" /\ pan = ""
  ELSE err # "order" /\ pan = ""      \* beyond the documented limits: accept or refuse, never crash

\* Where the property allows either outcome (input beyond the documented limits)
\* the state follows what the implementation did: `accepted` is the logged
\* outcome.  A non-ascending list never yields an instance.
New(keys, vals, hasvals, o4, accepted) ==
  inst' = IF accepted /\ StrictAsc(keys) THEN Content(keys, vals, hasvals, o4, TRUE) ELSE NoInst

\* the Model's own prediction of the outcome (Layer M)
ModelAccepts(keys, vals, hasvals, o4) ==
  StrictAsc(keys) /\ NewOutcome(keys, Content(keys, vals, hasvals, o4, TRUE)) = ""

\* Marshal followed by Unmarshal into a fresh instance: the same content
LoadOwn == inst.live /\ inst' = [inst EXCEPT !.loaded = TRUE]

\* read-only calls
Read == UNCHANGED inst

\* ---- scans (C04) -------------------------------------------------------------
\* the scan APIs require complete keys; otherwise they refuse (panic) -- unless
\* the trie is empty, where there is nothing to refuse
Refuses(c) == Len(c.ks) > 0 /\ ~StoresCompleteKeys(c.o)

\* what a whole scan call delivers to its callback: positions in c.R
ScanDelivers(c, start, incl, hasEnd, end, inclEnd, stop) ==
  LET all == RefScanPos(c.ks, c.R, start, incl, hasEnd, end, inclEnd)
  IN IF stop >= 0 /\ stop < Len(all) THEN SubSeq(all, 1, stop) ELSE all

ScanVal(c, withvalue, p) == IF withvalue THEN VR(c, p) ELSE NilV

\* one whole scan call
ScanBad(c, e) ==
  IF Refuses(c)
  THEN (IF e.pan = "" THEN {"notrefused"} ELSE {}) \cup (IF Len(e.yk) > 0 THEN {"yielded-unindexed"} ELSE {})
  ELSE
    LET exp == ScanDelivers(c, e.start, e.incl = 1, e.hasend = 1, e.end, e.inclend = 1, e.stop)
    IN (IF e.pan # "" THEN {"panic"} ELSE {})
       \cup (IF e.pan = "" /\ Len(e.yk) # Len(exp) THEN {"count"} ELSE {})
       \cup (IF e.pan = "" /\ Len(e.yk) = Len(exp) /\ \E x \in 1..Len(exp) : e.yk[x] # c.ks[c.R[exp[x]]]
             THEN {"keys"} ELSE {})
       \cup (IF e.pan = "" /\ Len(e.yk) = Len(exp) /\ \E x \in 1..Len(exp) : e.yv[x] # ScanVal(c, e.withvalue = 1, exp[x])
             THEN {"values"} ELSE {})
       \cup (IF e.extras # 0 THEN {"after-exhaustion"} ELSE {})

\* Layer M: the Model's scan (getGEPath + depth-first walk + key re-assembly)
ScanDrift(c, e) ==
  IF Refuses(c) \/ e.pan # "" THEN {}
  ELSE LET ms == ModelScan(c.ks, c.nodes, c.o, e.start, e.incl = 1)
       IN IF \E x \in 1..Len(e.yk) : x > Len(ms) \/ ms[x].key # e.yk[x] THEN {"modelscan"} ELSE {}

\* iterators: iters[id] = [rest, wv]: the positions (in inst.R) still to be
\* yielded.  Each iterator owns its cursor; reads of the trie do not touch it.
NoIters == <<>>
HasIter(id) == id \in DOMAIN iters
IterNew(id, start, incl, wv) ==
  /\ inst.live /\ ~Refuses(inst)
  /\ iters' = (id :> [rest |-> RefScanPos(inst.ks, inst.R, start, incl, FALSE, <<>>, FALSE), wv |-> wv]) @@ iters
\* yields <<key, value>>; <<NilV, NilV>> once exhausted, forever
IterYield(id) ==
  IF iters[id].rest = <<>> THEN <<NilV, NilV>>
  ELSE LET p == Head(iters[id].rest) IN <<inst.ks[inst.R[p]], ScanVal(inst, iters[id].wv, p)>>
IterNext(id) ==
  /\ HasIter(id)
  /\ iters' = [iters EXCEPT ![id].rest = IF @ = <<>> THEN <<>> ELSE Tail(@)]
=============================================================================
