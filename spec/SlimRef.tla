------------------------------ MODULE SlimRef ------------------------------
(***************************************************************************)
(* Reference semantics ("Ref"): the property statements themselves, as a   *)
(* sorted map over the retained keys.  Nothing here knows about tries.     *)
(*                                                                         *)
(* Values are sequences of bytes (the ENCODED value, which is what value   *)
(* de-duplication compares); NilV stands for Go's nil (no value).          *)
(***************************************************************************)
EXTENDS SlimKeys

NilV == <<-1>>

\* opt as the API takes it: each of the four flags is 0 (false), 1 (true) or
\* 2 (nil pointer).  Normalised: dd defaults to TRUE, the others to FALSE,
\* Complete implies both prefixes.
NormOpt(o4) ==
  LET cpl == o4[4] = 1
  IN [dd    |-> o4[1] # 0,
      innp  |-> cpl \/ o4[2] = 1,
      leafp |-> cpl \/ o4[3] = 1]

IsComplete(o) == o.innp /\ o.leafp

\* indexes (into keys) of the retained keys, ascending
RetainedIdx(n, vals, hasvals, dd) ==
  SelectSeq([i \in 1..n |-> i],
            LAMBDA i : ~(dd /\ hasvals) \/ i = 1 \/ vals[i] # vals[i-1])

ValAt(vals, hasvals, i) == IF hasvals THEN vals[i] ELSE NilV

\* position in R (sequence of indexes into keys) of the greatest retained key
\* <= q; 0 if none.  Linear scan from the Java-backed SelectInSeq.
RefFloorPos(keys, R, q) ==
  LET j == SelectInSeq([x \in 1..Len(R) |-> Lt(q, keys[R[x]])], LAMBDA b : b)
  IN IF j = 0 THEN Len(R) ELSE j - 1

\* <<found, value>>
RefGet(keys, vals, hasvals, R, q) ==
  LET f == RefFloorPos(keys, R, q)
  IN IF f > 0 /\ keys[R[f]] = q THEN <<1, ValAt(vals, hasvals, R[f])>> ELSE <<0, NilV>>

RefFloor(keys, vals, hasvals, R, q) ==
  LET f == RefFloorPos(keys, R, q)
  IN IF f > 0 THEN <<1, ValAt(vals, hasvals, R[f])>> ELSE <<0, NilV>>

\* <<value of greatest key < q, value of q, value of least key > q>>, NilV for none
RefSearch(keys, vals, hasvals, R, q) ==
  LET f  == RefFloorPos(keys, R, q)
      eq == f > 0 /\ keys[R[f]] = q
      l  == IF eq THEN f - 1 ELSE f
      r  == f + 1
      V(j) == IF j >= 1 /\ j <= Len(R) THEN ValAt(vals, hasvals, R[j]) ELSE NilV
  IN <<V(l), IF eq THEN V(f) ELSE NilV, V(r)>>

\* positions in R of the retained keys of a scan, in order
RefScanPos(keys, R, start, inclStart, hasEnd, end, inclEnd) ==
  SelectSeq([x \in 1..Len(R) |-> x],
            LAMBDA x : LET c == Cmp(keys[R[x]], start)
                           d == IF hasEnd THEN Cmp(keys[R[x]], end) ELSE -1
                       IN /\ (c > 0 \/ (c = 0 /\ inclStart))
                          /\ (d < 0 \/ (d = 0 /\ inclEnd)))

\* stored-information order on normalised options with equal dd
InfoLE(a, b) == a.dd = b.dd /\ (a.innp => b.innp) /\ (a.leafp => b.leafp)
=============================================================================
