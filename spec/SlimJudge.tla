----------------------------- MODULE SlimJudge -----------------------------
(***************************************************************************)
(* Judgement of observations recorded from the real code.                  *)
(*                                                                         *)
(* Two layers, never mixed up (DESIGN.md 3.3):                             *)
(*   Layer P  "P:<property>:<what>"  the Ref-stated predicate of a listed  *)
(*            property fails on a real observation -> candidate violation  *)
(*   Layer M  "M:<what>"             the observation differs from the      *)
(*            Model's prediction -> DRIFT (reported, never a violation)    *)
(*   "W:<what>"                      a witness logged by the harness is    *)
(*            wrong -> broken machinery                                    *)
(*                                                                         *)
(* Every operator returns the set of offending positions; Report prints a  *)
(* line the driver parses.  An instance `c` is the record built by Content *)
(* (SlimAPI): ks, vals, hasvals, o, R (retained indexes), rp (position of  *)
(* key i in R or 0), nodes (Model table), valset.                          *)
(***************************************************************************)
EXTENDS SlimWireOld

Report(l, code, bad) ==
  IF bad = {} THEN TRUE
  ELSE PrintT(<<"VERDICT", l, code, Cardinality(bad), CHOOSE x \in bad : TRUE>>)

V(c, i) == ValAt(c.vals, c.hasvals, i)
VR(c, p) == IF p >= 1 /\ p <= Len(c.R) THEN V(c, c.R[p]) ELSE NilV

\* ---- queries that are the keys themselves: answers aligned with c.ks -------
KC01get(c, e)  == {i \in 1..Len(c.ks) : c.rp[i] > 0 /\ e.gets[i] # <<1, V(c, i)>>}
KC01id(c, e)   == {i \in 1..Len(c.ks) : c.rp[i] > 0 /\ e.ids[i] < 0}
KC02(c, e)     == {i \in 1..Len(c.ks) : e.rgets[i] # <<1, V(c, i)>>}
KC09(c, e)     == {i \in 1..Len(c.ks) : c.rp[i] > 0 /\
                     e.srch[i] # <<VR(c, c.rp[i] - 1), V(c, i), VR(c, c.rp[i] + 1)>>}

\* ---- consistency of one batch of answers (C10), any queries ----------------
Found(g) == g[1] = 1
C10agree(c, e, n) ==
  {j \in 1..n :
     \/ Found(e.gets[j]) # (e.ids[j] >= 0)
     \/ (c.hasvals /\ Found(e.gets[j]) # (e.srch[j][2] # NilV))
     \/ (c.hasvals /\ Found(e.gets[j]) /\ e.gets[j][2] # e.srch[j][2])
     \/ (Found(e.gets[j]) /\ e.rgets[j] # e.gets[j])
     \/ (~Found(e.gets[j]) /\ e.gets[j][2] # NilV)}
C10supplied(c, e, n) ==
  {j \in 1..n :
     \/ (Found(e.gets[j]) /\ e.gets[j][2] \notin c.valset)
     \/ (Found(e.rgets[j]) /\ e.rgets[j][2] \notin c.valset)
     \/ (~Found(e.rgets[j]) /\ e.rgets[j][2] # NilV)
     \/ \E x \in 1..3 : e.srch[j][x] \notin (c.valset \cup {NilV})}
C10panic(e) == {p[1] : p \in {e.pans[x] : x \in 1..Len(e.pans)}}

\* typed getter = Get (C14); geti[j][1] = -1 when the encoder has no typed getter
C14(c, e, n) == {j \in 1..n : e.geti[j][1] # -1 /\ e.geti[j] # e.gets[j]}

\* ---- arbitrary queries with floor witnesses --------------------------------
\* witness: fp[j] = position in R of the greatest retained key <= qs[j]
WitnessBad(c, e) ==
  {j \in 1..Len(e.qs) :
     LET f == e.fp[j] IN
     ~ /\ f \in 0..Len(c.R)
       /\ (f = 0 \/ Le(c.ks[c.R[f]], e.qs[j]))
       /\ (f = Len(c.R) \/ Lt(e.qs[j], c.ks[c.R[f + 1]]))}

IsKeyAt(c, e, j) == e.fp[j] > 0 /\ c.ks[c.R[e.fp[j]]] = e.qs[j]
RefGetW(c, e, j)   == IF IsKeyAt(c, e, j) THEN <<1, VR(c, e.fp[j])>> ELSE <<0, NilV>>
RefFloorW(c, e, j) == IF e.fp[j] > 0 THEN <<1, VR(c, e.fp[j])>> ELSE <<0, NilV>>
RefSearchW(c, e, j) ==
  LET f == e.fp[j] eq == IsKeyAt(c, e, j) IN
  <<VR(c, IF eq THEN f - 1 ELSE f), IF eq THEN VR(c, f) ELSE NilV, VR(c, f + 1)>>

\* retained keys among arbitrary queries: C01 / C09 hold in EVERY mode
QC01(c, e) == {j \in 1..Len(e.qs) : IsKeyAt(c, e, j) /\ (e.gets[j] # RefGetW(c, e, j) \/ e.ids[j] < 0)}
QC09(c, e) == {j \in 1..Len(e.qs) : IsKeyAt(c, e, j) /\ e.srch[j] # RefSearchW(c, e, j)}
\* Complete mode: exact for every query (C03)
QC03get(c, e)    == {j \in 1..Len(e.qs) : e.gets[j] # RefGetW(c, e, j) \/ ((e.ids[j] >= 0) # IsKeyAt(c, e, j))}
QC03rget(c, e)   == {j \in 1..Len(e.qs) : e.rgets[j] # RefFloorW(c, e, j)}
QC03search(c, e) == {j \in 1..Len(e.qs) : e.srch[j] # RefSearchW(c, e, j)}

\* ---- Layer M: the Model's prediction ---------------------------------------
MAnswers(c, e, qs) ==
  {j \in 1..Len(qs) :
     LET id == GetIDm(c.ks, c.nodes, c.o, qs[j])          \* one descent each
         s  == SearchIDm(c.ks, c.nodes, c.o, qs[j])
         LV(x) == LeafVal(c.nodes, c.vals, c.hasvals, x)
     IN \/ e.ids[j]   # (IF id = -1 THEN -1 ELSE id - 1)
        \/ e.gets[j]  # (IF id = -1 THEN <<0, NilV>> ELSE <<1, LV(id)>>)
        \/ e.rgets[j] # (IF s[2] # -1 THEN <<1, LV(s[2])>>
                         ELSE IF s[1] = -1 THEN <<0, NilV>> ELSE <<1, LV(s[1])>>)
        \/ e.srch[j]  # <<LV(s[1]), LV(s[2]), LV(s[3])>>}

\* decoded node table of the real trie vs the Model's table
MaskOf(ws) == IF ws % 2 = 1 THEN 240 ELSE 255
MNode(c, d, n) ==
  IF n.inner
  THEN /\ d.t = 1
       /\ d.labels = n.labels
       /\ (d.big = 1) = n.big
       /\ (d.haspfx = 1) = HasStep(n)
       /\ HasStep(n) =>
            IF c.o.innp THEN d.pfx = Append(PrefixBytes(c.ks, n), MaskOf(n.ws))
            ELSE d.step = StoredStep(n)
  ELSE /\ d.t = 0
       /\ d.val = V(c, n.key)
       /\ LET tail == LeafTail(c.ks, n) IN
          IF c.o.leafp /\ Len(tail) > 0 THEN d.hastail = 1 /\ d.tail = tail
          ELSE d.hastail = 0
MTable(c, e) ==
  IF Len(e.nodes) # Len(c.nodes) THEN {0}
  ELSE {i \in 1..Len(c.nodes) : ~MNode(c, e.nodes[i], c.nodes[i])}
MShort(c, e) ==
  IF Len(c.nodes) = 0 THEN {}
  ELSE LET ss == ShortSelect(c.nodes)
           dinn == SelectSeq(e.nodes, LAMBDA d : d.t = 1)
       IN (IF ss.size # e.shortsize THEN {1} ELSE {})
          \cup (IF ss.bigcnt # e.bigcnt THEN {2} ELSE {})
          \cup (IF ss.size = e.shortsize /\ ss.table # e.shorttable THEN {3} ELSE {})
          \cup (IF [i \in 1..Len(dinn) |-> dinn[i].short] # ss.flags THEN {4} ELSE {})

\* ---- one key/value list in all 16 option combinations (C13) -----------------
\* e.ans[m] for m = 1 + dd + 2*innp + 4*leafp + 8*cpl holds the Get answers of the
\* trie built with those flags; e.fp[dd + 1] the floor witnesses among the keys
\* retained under that dd.
ComboOpt(m) == LET x == m - 1 IN NormOpt(<<x % 2, (x \div 2) % 2, (x \div 4) % 2, (x \div 8) % 2>>)
\* <<a, b>>: combination b stores no more than combination a (same dd); constant
InfoPairs == {p \in (1..16) \X (1..16) : p[1] # p[2] /\ InfoLE(ComboOpt(p[2]), ComboOpt(p[1]))}
ComboTab == TLCEval([m \in 1..16 |-> ComboOpt(m)])
ModesBad(e) ==
  LET n  == Len(e.keys)
      nq == Len(e.qs)
      Rd == TLCEval([d \in 1..2 |-> RetainedIdx(n, e.vals, e.hasvals, d = 2)])
      IsKey(d, j) == e.fp[d][j] > 0 /\ e.keys[Rd[d][e.fp[d][j]]] = e.qs[j]
      ValOfKey(d, j) == ValAt(e.vals, e.hasvals, Rd[d][e.fp[d][j]])
      witnessbad == {j \in 1..nq : \E d \in 1..2 :
                       LET f == e.fp[d][j] R == Rd[d] IN
                       ~ /\ f \in 0..Len(R)
                         /\ (f = 0 \/ Le(e.keys[R[f]], e.qs[j]))
                         /\ (f = Len(R) \/ Lt(e.qs[j], e.keys[R[f + 1]]))}
      built == \A m \in 1..16 : e.ans[m].err = "" /\ e.ans[m].pan = ""
  IN [witness |-> witnessbad,
      \* a build may refuse keys beyond the documented limits (C08); anything else is a
      \* construction failure
      build   |-> IF \E m \in 1..16 : \/ e.ans[m].pan # ""
                                      \/ e.ans[m].err \notin {"", "toolong"}
                                      \/ (e.ans[m].err = "toolong" /\ \A i \in 1..n : Len(e.keys[i]) <= 16384)
                  THEN {1} ELSE {},
      \* found with more information => found with the same value with less
      refine  |-> IF ~built THEN {} ELSE
                  {j \in 1..nq : \E p \in InfoPairs :
                     /\ e.ans[p[1]].gets[j][1] = 1
                     /\ e.ans[p[2]].gets[j] # e.ans[p[1]].gets[j]},
      \* Complete reports found only for retained keys
      exact   |-> IF ~built \/ witnessbad # {} THEN {} ELSE
                  {j \in 1..nq : \E m \in 1..16 :
                     /\ IsComplete(ComboTab[m])
                     /\ e.ans[m].gets[j][1] = 1
                     /\ ~IsKey(IF ComboTab[m].dd THEN 2 ELSE 1, j)},
      \* every mode answers retained keys identically (and, by C01, correctly)
      onkeys  |-> IF ~built \/ witnessbad # {} THEN {} ELSE
                  {j \in 1..nq : \E m \in 1..16 :
                     LET d == IF ComboTab[m].dd THEN 2 ELSE 1 IN
                     IsKey(d, j) /\ e.ans[m].gets[j] # <<1, ValOfKey(d, j)>>}]
\* Layer M: one Model table per dd serves all modes (options only add payload)
ModesDrift(e) ==
  LET nd == TLCEval([d \in 1..2 |-> BuildNodes(e.keys, e.vals, e.hasvals, d = 2, TRUE)]) IN
  {j \in 1..Len(e.qs) : \E m \in 1..16 :
     LET o == ComboTab[m] d == IF o.dd THEN 2 ELSE 1 IN
     e.ans[m].err = "" /\ e.ans[m].pan = "" /\
     e.ans[m].gets[j] # ModelGet(e.keys, nd[d], o, e.vals, e.hasvals, e.qs[j])}

\* ---- String() (C19) ---------------------------------------------------------
\* e.lines: the tokenised rendering; e.dn: node count by the harness's own decoder
RenderBad(c, e) ==
  \* Layer P reads the node id and the leaf value of each line only (e.ids, e.leafvals):
  \* it does not depend on the rest of the line format
  LET n == Len(e.ids) IN
  (IF e.pan # "" THEN {"panic"} ELSE {})
  \cup (IF e.pan = "" /\ e.noid # 0 THEN {"line-without-node-id"} ELSE {})
  \cup (IF e.pan = "" /\ (n # e.dn \/ {e.ids[x] : x \in 1..n} # 0..(e.dn - 1))
        THEN {"each-node-once"} ELSE {})
  \cup (IF e.pan = "" /\ e.leafvals # [p \in 1..Len(c.R) |-> V(c, c.R[p])]
        THEN {"leaf-values"} ELSE {})
RenderDrift(c, e) ==
  IF e.pan = "" /\ (e.bad # 0 \/ e.lines # ModelRender(c.nodes, c.o, c.vals, c.hasvals)) THEN {"render"} ELSE {}

\* ---- Level B: the stored message = Encode(content) ------------------------------
BMSame(m, e) ==
  /\ e.nwords = m.nwords
  /\ (m.nwords >= 0 => /\ {e.bits[x] : x \in 1..Len(e.bits)} = m.bits
                         /\ e.rank = m.rank /\ e.sel = m.sel)
EncodingDiff(c, e) ==
  LET m == Encode(c) IN
  (IF e.bigcnt # m.bigcnt \/ e.shortsize # m.shortsize \/ e.shorttable # m.shorttable THEN {"header-fields"} ELSE {})
  \cup (IF ~BMSame(m.nodetype, e.nodetype) THEN {"NodeTypeBM"} ELSE {})
  \cup (IF ~BMSame(m.inners, e.inners) THEN {"Inners"} ELSE {})
  \cup (IF ~BMSame(m.shortbm, e.shortbm) THEN {"ShortBM"} ELSE {})
  \cup (IF ~ /\ e.ip.present /\ e.ip.eltcnt = m.ip.eltcnt /\ e.ip.fixed = m.ip.fixed /\ e.ip.bytes = m.ip.bytes
              /\ BMSame(m.ip.presence, e.ip.presence) /\ BMSame(m.ip.position, e.ip.position)
        THEN {"InnerPrefixes"} ELSE {})
  \cup (IF e.lp.present # m.lp.present THEN {"LeafPrefixes-presence"}
        ELSE IF m.lp.present /\ ~ /\ e.lp.bytes = m.lp.bytes /\ BMSame(m.lp.presence, e.lp.presence)
                                    /\ BMSame(m.lp.position, e.lp.position)
        THEN {"LeafPrefixes"} ELSE {})
  \cup (IF e.leaves.present # m.leaves.present THEN {"Leaves-presence"}
        ELSE IF m.leaves.present /\ ~ /\ e.leaves.n = m.leaves.n /\ e.leaves.eltcnt = m.leaves.eltcnt
                                        /\ e.leaves.fixed = m.leaves.fixed /\ e.leaves.bytes = m.leaves.bytes
                                        /\ BMSame(m.leaves.presence, e.leaves.presence)
                                        /\ BMSame(m.leaves.position, e.leaves.position)
        THEN {"Leaves"} ELSE {})
  \cup (IF e.unknown # 0 THEN {"unknown-fields"} ELSE {})
  \* Level C: the bytes Marshal returned are Stream(Encode(c)) (logged up to 2 KiB, fresh tries)
  \cup (IF Len(e.wire) > 0 /\ e.wire # Stream(m) THEN {"wire"} ELSE {})

\* ---- Stat (C18) -------------------------------------------------------------
StatBad(c, e) ==
  LET lv == e.levels
      n  == Len(lv)
      last == lv[n]
  IN (IF e.pan # "" THEN {"panic"} ELSE {})
     \cup (IF e.pan = "" /\ n >= 1 THEN
            (IF e.keycnt # Len(c.R) THEN {"keycnt"} ELSE {})
       \cup (IF e.nodecnt # last[1] THEN {"nodecnt"} ELSE {})
       \cup (IF e.levelcnt # n THEN {"levelcnt"} ELSE {})
       \cup (IF \E i \in 1..n : lv[i][1] # lv[i][2] + lv[i][3] THEN {"sum"} ELSE {})
       \cup (IF \E i \in 1..(n - 1) : \E x \in 1..3 : lv[i][x] > lv[i+1][x] THEN {"monotone"} ELSE {})
       \cup (IF lv[1] # <<0, 0, 0>> THEN {"level0"} ELSE {})
       \cup (IF Len(c.ks) = 0 /\ (e.keycnt # 0 \/ e.nodecnt # 0) THEN {"empty"} ELSE {})
       \cup (IF Len(c.ks) = 1 /\ (e.keycnt # 1 \/ e.nodecnt # 1) THEN {"single"} ELSE {})
       \cup (IF last[3] # Len(c.R) THEN {"leaftotal"} ELSE {})
       ELSE IF e.pan = "" THEN {"nolevels"} ELSE {})
StatDrift(c, e) == IF e.pan = "" /\ e.levels # ModelLevels(c.nodes) THEN {"levels"} ELSE {}
=============================================================================
