----------------------------- MODULE Trace_Misc -----------------------------
(***************************************************************************)
(* Trace validation of the value encoders (C15), the compacted arrays      *)
(* (C16) and the size of the filter-mode index (C17).  These events carry  *)
(* their whole input, so the only state is the position in the trace.      *)
(***************************************************************************)
EXTENDS SlimCodec, SlimArray, FiniteSetsExt, Json

CONSTANTS TraceFile, LayerM

VARIABLE l

Trace == ndJsonDeserialize(TraceFile)

TInit == l = 1
Ev(name) == l <= Len(Trace) /\ Trace[l].ev = name /\ l' = l + 1

Report(code, bad) ==
  IF bad = {} THEN TRUE
  ELSE PrintT(<<"VERDICT", l, code, Cardinality(bad), CHOOSE x \in bad : TRUE>>)

\* ---- C15 --------------------------------------------------------------------
IntItemBad(e, it) ==
  LET want == EncInt(it.neg = 1, it.mag, FALSE) IN
  \/ it.pan # ""
  \/ it.enc # want                                   \* fixed width LE two's complement
  \/ Len(it.enc) # e.w
  \/ it.dn # e.w                                     \* consumed exactly the encoding
  \/ it.size # e.w \/ it.esize # e.w
  \/ it.dneg # it.neg \/ (it.dmag # it.mag)          \* round trip
  \/ ~InRange(e.signed = 1, it.neg = 1, it.mag)      \* harness sanity: value in the domain

TCodec ==
  /\ Ev("codec")
  /\ LET e == Trace[l] IN
     Report("P:C15:int:" \o e.enc, {x \in 1..Len(e.items) : IntItemBad(e, e.items[x])})

TCodecS16 ==
  /\ Ev("codecs16")
  /\ LET e == Trace[l] IN
     Report("P:C15:string16",
            {x \in 1..Len(e.items) :
               LET it == e.items[x] IN
               \/ it.pan # ""
               \/ it.enc # EncString16(it.s)
               \/ it.dn # Len(it.s) + 2 \/ it.size # Len(it.s) + 2 \/ it.esize # Len(it.s) + 2
               \/ it.ds # it.s})

TCodecBytes ==
  /\ Ev("codecbytes")
  /\ LET e == Trace[l] IN
     Report("P:C15:bytes",
            {x \in 1..Len(e.items) :
               LET it == e.items[x] IN
               \/ it.pan # "" \/ it.enc # it.v \/ it.dn # e.n \/ it.size # e.n \/ it.esize # e.n \/ it.dv # it.v})

TCodecDummy ==
  /\ Ev("codecdummy")
  /\ LET e == Trace[l] IN
     Report("P:C15:dummy", IF e.enclen # 0 \/ e.dn # 0 \/ e.dnil # 1 \/ e.size # 0 \/ e.esize # 0 THEN {1} ELSE {})

FieldRec(f) == [neg |-> f.neg = 1, mag |-> f.mag]
TCodecStruct ==
  /\ Ev("codecstruct")
  /\ LET e == Trace[l] IN
     Report("P:C15:struct",
            {x \in 1..Len(e.items) :
               LET it == e.items[x]
                   want == EncFields([i \in 1..Len(it.fields) |-> FieldRec(it.fields[i])], e.big = 1) IN
               \/ it.pan # ""
               \/ it.enc # want
               \/ it.dn # Len(want) \/ it.size # Len(want) \/ it.esize # Len(want)
               \/ it.dfields # it.fields
               \* Decode gives back v itself: same dynamic type, same value
               \/ ("same" \in DOMAIN it /\ it.same # 1)})

\* ---- C16 --------------------------------------------------------------------
Zero == <<>>
\* an observation is logged as <<>> for (zero, false) and as the (non-empty) element
\* bytes for a hit
ObsOf(idx, elts, i) == LET g == SparseGet(idx, elts, Zero, i) IN IF g[1] = 0 THEN <<>> ELSE g[2]

TArr ==
  /\ Ev("arr")
  /\ LET e == Trace[l]
         ok == OutcomeOK(e.index, e.nelts, e.err)
         np == Len(e.probes) IN
     /\ Report("P:C16:outcome",
               (IF e.pan # "" THEN {"panic"} ELSE {})
               \cup (IF ~ok THEN {"error-class"} ELSE {})
               \cup (IF e.err # "" /\ e.built # 0 THEN {"built-on-error"} ELSE {}))
     /\ (e.err = "" /\ e.pan = "" /\ ok) =>
          /\ Report("P:C16:typed",     {x \in 1..np : e.typed[x]     # ObsOf(e.index, e.elts, e.probes[x])})
          /\ Report("P:C16:generic",   {x \in 1..np : e.generic[x]   # ObsOf(e.index, e.elts, e.probes[x])})
          /\ Report("P:C16:raw",       {x \in 1..np : e.raw[x]       # ObsOf(e.index, e.elts, e.probes[x])})
          /\ Report("P:C16:roundtrip", {x \in 1..np : e.rttyped[x]   # ObsOf(e.index, e.elts, e.probes[x])
                                                   \/ e.rtgeneric[x] # ObsOf(e.index, e.elts, e.probes[x])})
          \* Layer M: the stored words and offsets (with the zero-for-empty-word quirk)
          /\ LayerM => Report("M:array",
                 (IF e.cnt # Len(e.index) THEN {"cnt"} ELSE {})
                 \cup (IF {b : b \in {e.bits[x] : x \in 1..Len(e.bits)}} # {e.index[x] : x \in 1..Len(e.index)} THEN {"bits"} ELSE {})
                 \cup (IF e.offsets # Offsets(e.index) THEN {"offsets"} ELSE {})
                 \* the marshalled message, byte for byte (logged up to 2 KiB)
                 \cup (IF Len(e.wire) > 0 /\ e.wire # ArrayMsg(e.index, FlattenSeq(e.elts)) THEN {"wire"} ELSE {}))

\* large arrays (Layer P only): the harness supplies, for each probe, the position of the
\* greatest index <= probe (0 if none); the spec verifies the witness against the index list
\* and reads the expected answer off it
BigWant(e, x) ==
  LET p == e.pos[x] IN IF p > 0 /\ e.index[p] = e.probes[x] THEN e.elts[p] ELSE <<>>
TArrBig ==
  /\ Ev("arrbig")
  /\ LET e == Trace[l]
         n == Len(e.index)
         np == Len(e.probes) IN
     /\ Report("W:array-witness",
               (IF ~Ascending(e.index) \/ e.nelts # n \/ Len(e.pos) # np THEN {0} ELSE {})
               \cup {x \in 1..np : LET p == e.pos[x] IN
                        ~(p \in 0..n /\ (p = 0 \/ e.index[p] <= e.probes[x]) /\ (p = n \/ e.index[p + 1] > e.probes[x]))})
     /\ Report("P:C16:outcome", (IF e.pan # "" THEN {"panic"} ELSE {}) \cup (IF e.err # "" THEN {"error-class"} ELSE {}))
     /\ (e.err = "" /\ e.pan = "") =>
          /\ Report("P:C16:typed",     {x \in 1..np : e.typed[x]     # BigWant(e, x)})
          /\ Report("P:C16:generic",   {x \in 1..np : e.generic[x]   # BigWant(e, x)})
          /\ Report("P:C16:raw",       {x \in 1..np : e.raw[x]       # BigWant(e, x)})
          /\ Report("P:C16:roundtrip", {x \in 1..np : e.rttyped[x] # BigWant(e, x) \/ e.rtgeneric[x] # BigWant(e, x)})
          /\ Report("P:C16:count", IF e.cnt # n THEN {e.cnt} ELSE {})

\* ---- C17 --------------------------------------------------------------------
CeilDiv(a, b) == (a + b - 1) \div b
\* worst-case protobuf size of a bitmap of `bits` bits with a rank index per
\* `per` bits: varint words (<= 10 bytes), varint ranks (<= 5), tags and lengths
BMUB(bits, per) == LET w == CeilDiv(bits, 64) IN 10 * w + 5 * (CeilDiv(bits, per) + 2) + 16
RECURSIVE P2(_)
P2(n) == IF n = 0 THEN 1 ELSE 2 * P2(n - 1)
\* upper bound of the stream of a filter-mode trie with this shape: label bitmaps,
\* node-type bitmap, short bitmap and table, one 16-bit step per stepped node --
\* and NOTHING that grows with the length of the keys
SizeUB(e) ==
  LET innerbits == 257 * e.big + 17 * (e.inner - e.big - e.short) + e.shortsize * e.short IN
  32 + 24
  + BMUB(e.nodes, 64) + BMUB(innerbits, 128) + BMUB(e.inner, 64)
  + 4 * P2(e.shortsize) + 8
  + 2 * e.steps + BMUB(e.inner, 128) + 24

TSize ==
  /\ Ev("size")
  /\ LET e == Trace[l] IN
     /\ Report("P:C17:bound", IF e.mlen < 0 \/ e.mlen > 8 * e.n + 256 THEN {e.n} ELSE {})
     /\ LayerM => Report("M:size", IF e.mlen > SizeUB(e) \/ e.haslp # 0 \/ e.haslv # 0 \/ e.ipmode = "prefix" THEN {e.n} ELSE {})

TSizePair ==
  /\ Ev("sizepair")
  /\ LET e == Trace[l]
         d == IF e.len2 >= e.len1 THEN e.len2 - e.len1 ELSE e.len1 - e.len2 IN
     /\ Report("P:C17:prefix-independent", IF e.len1 < 0 \/ e.len2 < 0 \/ d > 8 THEN {d} ELSE {})
     /\ LayerM => Report("M:shape", IF e.sameshape # 1 THEN {1} ELSE {})

TNext == TCodec \/ TCodecS16 \/ TCodecBytes \/ TCodecDummy \/ TCodecStruct \/ TArr \/ TArrBig \/ TSize \/ TSizePair

Accepted == TLCGet("stats").diameter - 1 = Len(Trace)
=============================================================================
