------------------------------ MODULE MC_Reader ------------------------------
(***************************************************************************)
(* B1 for the reader-side arithmetic: in every small world, for all four   *)
(* prefix modes and every string of the universe, GetID computed on the    *)
(* STORED FORM (Encode: bitmaps, rank/select indexes, short table, packed  *)
(* steps/prefixes/tails) with the code's offset arithmetic equals GetID on *)
(* the node table.  BigMin and ShortCost are lowered so that 257-bit nodes *)
(* and short nodes occur in 3-key worlds.                                  *)
(***************************************************************************)
EXTENDS SlimReader

CONSTANTS Alphabet, MaxLen, MaxKeys

VARIABLES keys, vals, dd, hasvals

Strings == StringsUpTo(Alphabet, MaxLen)
Init == keys = <<>> /\ vals = <<>> /\ dd \in BOOLEAN /\ hasvals = TRUE
Next ==
  /\ Len(keys) < MaxKeys
  /\ \E k \in Strings :
       /\ (IF Len(keys) = 0 THEN TRUE ELSE Lt(keys[Len(keys)], k))
       /\ keys' = Append(keys, k)
       /\ \E same \in (IF dd /\ Len(keys) > 0 THEN BOOLEAN ELSE {FALSE}) :
            vals' = Append(vals, IF same THEN vals[Len(vals)] ELSE <<Len(vals) + 1>>)
  /\ UNCHANGED <<dd, hasvals>>

Modes == {[innp |-> a, leafp |-> b] : a \in BOOLEAN, b \in BOOLEAN}

Inv ==
  Len(keys) > 0 =>
    LET nodes == TLCEval(BuildNodes(keys, vals, hasvals, dd, TRUE)) IN
    \A o \in Modes :
      LET c == [ks |-> keys, vals |-> vals, hasvals |-> hasvals, o |-> o, nodes |-> nodes]
          m == TLCEval(Encode(c)) IN
      \* the level table computed on the stored form is the Model's (Stat, C18)
      /\ LevelsB(m) = ModelLevels(nodes)
      /\ \A q \in Strings :
        /\ GetIDB(m, q) = ModelGetID(keys, nodes, o, q)
        /\ SearchIDB(m, q) = [x \in 1..3 |-> LET y == SearchIDm(keys, nodes, o, q)[x] IN IF y = -1 THEN -1 ELSE y - 1]
        \* scans need complete keys: on the stored form they yield the Model's keys, leaves and values
        /\ (o.innp /\ o.leafp) =>
             \A incl \in BOOLEAN :
               LET sb == ScanB(m, q, incl)
                   ms == ModelScan(keys, nodes, o, q, incl) IN
               /\ Len(sb) = Len(ms)
               /\ \A x \in 1..Len(ms) :
                    /\ sb[x].key = ms[x].key /\ sb[x].leaf = ms[x].leaf - 1
                    /\ sb[x].val = vals[nodes[ms[x].leaf].key]
=============================================================================
