----------------------------- MODULE SlimRender -----------------------------
(***************************************************************************)
(* Model of String() (trie/slimtrie_str.go + low/tree.String): a depth-    *)
(* first, pre-order listing of the node table, one line per node:          *)
(*                                                                         *)
(*     -<label>->#<id>+<step>*<fan-out>=<value>                            *)
(*                                                                         *)
(* A rendered line is the tuple                                            *)
(*   <<label code, node id, step in bits, fan-out (0 if < 2), leaf?, value>>*)
(* with label code -1 for the root (no incoming label), 0 for the empty    *)
(* label, 1 + half-byte / 1 + byte otherwise.                              *)
(***************************************************************************)
EXTENDS SlimScan

StepBitsShown(o, n) ==
  IF ~HasStep(n) THEN 0
  ELSE IF o.innp THEN 4 * PrefixNibs(n) ELSE 4 * StoredStep(n)

RECURSIVE RenderFrom(_, _, _, _, _, _)
RenderFrom(nodes, o, vals, hasvals, id, lc) ==
  LET n == nodes[id] IN
  IF ~n.inner
  THEN << <<lc, id - 1, 0, 0, 1, ValAt(vals, hasvals, n.key)>> >>
  ELSE << <<lc, id - 1, StepBitsShown(o, n), IF Len(n.labels) > 1 THEN Len(n.labels) ELSE 0, 0, NilV>> >>
       \o FlattenSeq([c \in 1..Len(n.labels) |->
                        RenderFrom(nodes, o, vals, hasvals, n.first + c - 1, n.labels[c])])

ModelRender(nodes, o, vals, hasvals) ==
  IF Len(nodes) = 0 THEN <<>> ELSE RenderFrom(nodes, o, vals, hasvals, 1, -1)
=============================================================================
