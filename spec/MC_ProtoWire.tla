---------------------------- MODULE MC_ProtoWire ----------------------------
(***************************************************************************)
(* B1 for the wire primitives: the parser is the inverse of the writer.    *)
(*   - every number 0 .. MaxN and every 64-bit value whose one-positions   *)
(*     are a subset of Positions (the 7-bit group boundaries and both ends *)
(*     of the word) survives VarintN / VarintBits -> RdVar, and the parser *)
(*     stops exactly behind the varint even when other bytes follow;       *)
(*   - a message made of a varint field, a length-delimited field and a    *)
(*     packed field parses back into exactly these fields (Fields, IntF,   *)
(*     BytesF, Unpack), and every proper prefix of it either parses into   *)
(*     fewer fields or is reported malformed -- never into other values    *)
(*     for the fields it does contain.                                     *)
(***************************************************************************)
EXTENDS ProtoWire, TLC

CONSTANTS MaxN, Positions

VARIABLES n, S, lvl
\* worlds: every number 0..MaxN (+ Big) with S = {}, every subset of Positions with n = 17.
\* Two levels of branching (bucket, then member) so that TLC's workers share the worlds.
Big == {2097151, 2097152, 268435455, 268435456, 2147483647}
Buckets == 64
Init == lvl = 0 /\ n = 0 /\ S = {}
Next ==
  \/ lvl = 0 /\ lvl' = 1 /\ n' \in 0..(Buckets - 1) /\ S' = {}
  \/ lvl = 1 /\ lvl' = 2 /\ S' = {} /\ n' \in {x \in (0..MaxN) \cup Big : x % Buckets = n}
  \/ lvl = 1 /\ lvl' = 2 /\ n' = 17 /\ S' \in {T \in SUBSET Positions : (IF T = {} THEN 0 ELSE Max(T)) % Buckets = n}

Junk == <<255, 0, 128>>

VarintRoundTrip ==
  lvl = 2 =>
  /\ LET r == RdVar(VarintN(n) \o Junk, 1, 0, {}) IN NumOf(r[1]) = n /\ r[2] = Len(VarintN(n)) + 1
  /\ LET r == RdVar(VarintBits(S) \o Junk, 1, 0, {}) IN r[1] = S /\ r[2] = Len(VarintBits(S)) + 1
  /\ (S # {} /\ Max(S) < 31) => VarintBits(S) = VarintN(NumOf(S))
  \* a varint cut short is reported as such
  /\ \A cut \in 0..(Len(VarintBits(S)) - 1) : RdVar(SubSeq(VarintBits(S), 1, cut), 1, 0, {})[2] = 0

Msg == OptInt(3, n) \o LD(7, VarintN(n) \o <<1, 2>>) \o PackedW(20, <<S, {}, S>>) \o PackedN(300, <<n, 0, 1>>)

MessageRoundTrip ==
  lvl = 2 =>
  LET fs == Fields(Msg, 1) IN
  /\ WellFormed(fs)
  /\ IntF(fs, 3) = n
  /\ BytesF(fs, 7) = VarintN(n) \o <<1, 2>>
  /\ Unpack(BytesF(fs, 20), 1) = <<S, {}, S>>
  /\ UnpackN(BytesF(fs, 300)) = <<n, 0, 1>>
  /\ ~HasF(fs, 4)
  /\ \A cut \in 0..(Len(Msg) - 1) :
       LET ps == Fields(SubSeq(Msg, 1, cut), 1) IN
       \/ ~WellFormed(ps)
       \/ /\ Len(ps) < Len(fs)
          /\ \A i \in 1..Len(ps) : ps[i] = fs[i]
=============================================================================
