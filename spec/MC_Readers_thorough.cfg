CONSTANTS
  BigMin = 10
  ShortCost = 64
  MaxShort = 10
  StepBits = 16
  NReaders = 3
INIT Init
NEXT Next
INVARIANTS Inv Emit
PROPERTY ReadsDoNotWrite
CHECK_DEADLOCK FALSE
