----------------------------- MODULE SlimStream -----------------------------
(***************************************************************************)
(* Byte streams as the loader sees them (trie/slimtrie_marshal.go, low/     *)
(* pbcmpl, low/vers + blang/semver).                                        *)
(*                                                                          *)
(* A stream is a sequence of SECTIONS; each section is a 32-byte header     *)
(* (16-byte version string, header size, body size) followed by a protobuf  *)
(* body.  Layouts >= 0.5.10 have one section, older ones three (children,   *)
(* steps, leaves).  The specification keeps the section lengths and the     *)
(* version string (as character codes); the body content is the abstract    *)
(* content record it encodes.                                               *)
(***************************************************************************)
EXTENDS SlimRender

HeaderLen == 32

\* ---- version strings: semver as blang/semver.Parse reads them ---------------
IndexOf(s, ch) == SelectInSeq(s, LAMBDA c : c = ch)      \* 0 if absent
IsDigit(c) == c >= 48 /\ c <= 57
IsAlnumHyphen(c) == IsDigit(c) \/ (c >= 65 /\ c <= 90) \/ (c >= 97 /\ c <= 122) \/ c = 45
AllDigits(x) == \A i \in 1..Len(x) : IsDigit(x[i])
\* a numeric part: non-empty digits without a leading zero
NumOK(x) == Len(x) > 0 /\ AllDigits(x) /\ ~(Len(x) > 1 /\ x[1] = 48)

RECURSIVE SplitDots(_)
SplitDots(s) ==
  LET p == IndexOf(s, 46) IN
  IF p = 0 THEN <<s>> ELSE <<SubSeq(s, 1, p - 1)>> \o SplitDots(SubSeq(s, p + 1, Len(s)))

PreIdOK(x)   == Len(x) > 0 /\ (IF AllDigits(x) THEN ~(Len(x) > 1 /\ x[1] = 48)
                               ELSE \A i \in 1..Len(x) : IsAlnumHyphen(x[i]))
BuildIdOK(x) == Len(x) > 0 /\ \A i \in 1..Len(x) : IsAlnumHyphen(x[i])

\* [ok, core (three digit strings), pre (has a pre-release part)]
SemverParse(s) ==
  LET bad == [ok |-> FALSE, core |-> <<>>, pre |-> FALSE]
      p1  == IndexOf(s, 46) IN
  IF Len(s) = 0 \/ p1 = 0 THEN bad
  ELSE
   LET rest1 == SubSeq(s, p1 + 1, Len(s))
       p2    == IndexOf(rest1, 46) IN
   IF p2 = 0 THEN bad
   ELSE
    LET major == SubSeq(s, 1, p1 - 1)
        minor == SubSeq(rest1, 1, p2 - 1)
        tail  == SubSeq(rest1, p2 + 1, Len(rest1))
        bi    == IndexOf(tail, 43)                                  \* '+'
        build == IF bi = 0 THEN <<>> ELSE SplitDots(SubSeq(tail, bi + 1, Len(tail)))
        t2    == IF bi = 0 THEN tail ELSE SubSeq(tail, 1, bi - 1)
        pi    == IndexOf(t2, 45)                                    \* '-'
        pre   == IF pi = 0 THEN <<>> ELSE SplitDots(SubSeq(t2, pi + 1, Len(t2)))
        patch == IF pi = 0 THEN t2 ELSE SubSeq(t2, 1, pi - 1)
    IN IF /\ NumOK(major) /\ NumOK(minor) /\ NumOK(patch)
          /\ \A i \in 1..Len(pre) : PreIdOK(pre[i])
          /\ \A i \in 1..Len(build) : BuildIdOK(build[i])
       THEN [ok |-> TRUE, core |-> <<major, minor, patch>>, pre |-> pi # 0]
       ELSE bad

\* "0.5.12" etc. as digit-code triples
D1(x) == <<48 + x>>
D2(x) == <<48 + (x \div 10), 48 + (x % 10)>>
CoreOneSection  == {<<D1(0), D1(5), D2(10)>>, <<D1(0), D1(5), D2(11)>>, <<D1(0), D1(5), D2(12)>>}
CoreThreeSection == {<<D1(1), D1(0), D1(0)>>, <<D1(0), D1(5), D1(8)>>, <<D1(0), D1(5), D1(9)>>}
CurrentCore == <<D1(0), D1(5), D2(12)>>

\* the loader's test (Model): semver precedence equality with a listed version;
\* build metadata is ignored, a pre-release never equals a release
Compatible(ver) ==
  LET p == SemverParse(ver) IN p.ok /\ ~p.pre /\ p.core \in (CoreOneSection \cup CoreThreeSection)
OneSection(ver) == SemverParse(ver).core \in CoreOneSection

\* what the PROPERTY (C07) demands of a version string (Ref): "must" load,
\* "mustnot" (incompatibility error), or "either" (build-metadata variants of a
\* listed version: semver equality ignores metadata, the statement is silent)
PlainListed(ver) ==
  LET p == SemverParse(ver) IN
  p.ok /\ ~p.pre /\ IndexOf(ver, 43) = 0 /\ p.core \in (CoreOneSection \cup CoreThreeSection)
VersionDemand(ver) ==
  IF PlainListed(ver) THEN "must"
  ELSE IF Compatible(ver) THEN "either"
  ELSE "mustnot"

\* The same demand RELATIVE TO THE LIBRARY'S OWN VERSION `cur` (the version string it writes
\* into the header of its own streams, logged with every load): the compatible set of the
\* property is the historical list plus that version, so a release that bumps its version
\* constant is not judged as "a newer, unknown version" of itself.
VersionDemandCur(ver, cur) ==
  LET p == SemverParse(ver)
      c == SemverParse(cur) IN
  IF PlainListed(ver) THEN "must"
  ELSE IF p.ok /\ c.ok /\ ~c.pre /\ p.core = c.core
       THEN (IF p.pre THEN "mustnot" ELSE IF IndexOf(ver, 43) = 0 THEN "must" ELSE "either")
  ELSE IF Compatible(ver) THEN "either"
  ELSE "mustnot"

\* ---- streams --------------------------------------------------------------------
\* st = [ver, secs (body lengths), content]
StreamLen(st) == FoldLeft(LAMBDA a, b : a + HeaderLen + b, 0, st.secs)

\* outcome of Unmarshal of the first `cut` bytes of st with header version ver:
\* "" loaded, "incompatible", "other" (short read / malformed)
UnmOutcome(st, ver, cut) ==
  IF cut < HeaderLen THEN "other"                       \* not even a header
  ELSE IF ~Compatible(ver) THEN "incompatible"          \* checked before any body is read
  ELSE IF OneSection(ver)
       THEN (IF cut < HeaderLen + st.secs[1] THEN "other" ELSE "")
       ELSE (IF Len(st.secs) < 3 \/ cut < StreamLen(st) THEN "other" ELSE "")
=============================================================================
