------------------------------ MODULE SlimHist ------------------------------
(***************************************************************************)
(* Histories of one SlimTrie instance: Unmarshal (a multi-step action, as  *)
(* in the code), Reset, Marshal, caller-buffer scribbles.                  *)
(*                                                                         *)
(*   pool   the byte streams of the world: sid -> [ver, secs, content]     *)
(*   inst   the instance (SlimAPI); here with two more fields:             *)
(*            lv     the derived level table (vars/levels of the code):    *)
(*                   NOT reset by a failed Unmarshal -- the code clears    *)
(*                   `inner` first and recomputes `levels` only on success *)
(*            src    the sid of the stream last loaded successfully, 0 if  *)
(*                   the instance is empty                                 *)
(*   pc     where a running Unmarshal stands: Idle or <<step, sid, ver,  *)
(*          cut>>; the steps are the critical sections of the code         *)
(*   last   outcome of the last finished Unmarshal ("" / "incompatible" /  *)
(*          "other")                                                       *)
(***************************************************************************)
EXTENDS SlimAPI

VARIABLES pool, pc, last

Ext(c, lv, src) == ("lv" :> lv) @@ ("src" :> src) @@ c
EmptyC == Ext(Content(<<>>, <<>>, FALSE, <<2, 2, 2, 2>>, TRUE), << <<0, 0, 0>> >>, 0)
Loaded(sid) == LET c == pool[sid].content IN Ext([c EXCEPT !.loaded = TRUE], ModelLevels(c.nodes), sid)

Idle == <<"idle", 0, <<>>, 0>>

IsEmptyInst == inst.live /\ Len(inst.ks) = 0

DefStream(sid, st) == pool' = (sid :> st) @@ pool

\* ---- Unmarshal, step by step (slimtrie_marshal.go) ---------------------------
\* st.inner = &Slim{}: the old content is gone before anything is read;
\* vars/levels are left as they were
UnmBegin(sid, ver, cut) ==
  /\ pc[1] = "idle"
  /\ inst' = Ext(EmptyC, inst.lv, 0)
  /\ pc' = <<"header", sid, ver, cut>>
  /\ UNCHANGED <<pool, last>>

Fail(why) == pc' = Idle /\ last' = why /\ UNCHANGED <<inst, pool>>

\* pbcmpl.ReadHeader + vers.IsCompatible
UnmHeader ==
  /\ pc[1] = "header"
  /\ IF pc[4] < HeaderLen THEN Fail("other")
     ELSE IF ~Compatible(pc[3]) THEN Fail("incompatible")
     ELSE pc' = <<"body", pc[2], pc[3], pc[4]>> /\ UNCHANGED <<inst, pool, last>>

\* pbcmpl.Unmarshal of the one or the three sections: exact-size reads
UnmBody ==
  /\ pc[1] = "body"
  /\ IF UnmOutcome(pool[pc[2]], pc[3], pc[4]) # "" THEN Fail("other")
     ELSE pc' = <<"commit", pc[2], pc[3], pc[4]>> /\ UNCHANGED <<inst, pool, last>>

\* conversion of older layouts (part of the content) and st.init()
UnmCommit ==
  /\ pc[1] = "commit"
  /\ inst' = Loaded(pc[2])
  /\ pc' = Idle /\ last' = ""
  /\ UNCHANGED pool

\* the whole call as one function (for trace validation, where one logged line is
\* one call): <<outcome, next instance>>
UnmWhole(sid, ver, cut) ==
  LET out == UnmOutcome(pool[sid], ver, cut) IN
  <<out, IF out = "" THEN Loaded(sid) ELSE Ext(EmptyC, inst.lv, 0)>>

\* the steps a call passes before it ends: the hook of the code fires after the
\* header was read ("header") and after the body was decoded ("body")
UnmStages(sid, ver, cut) ==
  IF cut < HeaderLen THEN <<>>
  ELSE IF ~Compatible(ver) \/ UnmOutcome(pool[sid], ver, cut) # "" THEN <<"header">>
  ELSE <<"header", "body">>

ResetInst ==
  /\ pc[1] = "idle"
  /\ inst' = EmptyC
  /\ UNCHANGED <<pool, pc, last>>

\* Marshal, Stat, String, lookups, scans, and overwriting caller-owned buffers
\* (the input of Unmarshal, the output of Marshal) leave everything unchanged
ReadOnly == pc[1] = "idle" /\ UNCHANGED <<inst, pool, pc, last>>
=============================================================================
