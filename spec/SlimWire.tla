------------------------------ MODULE SlimWire ------------------------------
(***************************************************************************)
(* Level C: the byte stream Marshal writes, as a function of the stored    *)
(* form of SlimEncode (trie/slim.proto, golang/protobuf table marshaller,   *)
(* low/pbcmpl header).                                                      *)
(*                                                                          *)
(*   stream  = header body                                                  *)
(*   header  = version string, zero padded to 16 bytes                      *)
(*             header size (32) as little-endian uint64                     *)
(*             body size        as little-endian uint64                     *)
(*   body    = proto3 encoding of message Slim: fields in field-number      *)
(*             order, zero scalars / empty repeated / nil messages omitted, *)
(*             repeated scalars packed, a non-nil empty message written as  *)
(*             tag + length 0                                               *)
(*                                                                          *)
(* A 64-bit bitmap word does not fit a TLC integer, so a word travels as    *)
(* the set of its one-positions and its varint is computed 7 bits at a      *)
(* time from that set.                                                      *)
(*                                                                          *)
(* What this level adds: "Marshal is a function of (keys, values, options)" *)
(* (C05's byte stability) and "nothing in the stream grows with the key     *)
(* length in filter mode" (C17) become statements about Stream(Encode(c)),  *)
(* byte for byte, and the header the loader's staged checks read (C07) is   *)
(* the one written here.  Bound to the code by the `proto` events, which    *)
(* carry the real Marshal() output for streams up to 2 KiB.                 *)
(***************************************************************************)
EXTENDS SlimEncode

\* ---- varints -------------------------------------------------------------------
RECURSIVE VarintN(_)
VarintN(n) == IF n < 128 THEN <<n>> ELSE <<128 + (n % 128)>> \o VarintN(n \div 128)

\* S: the one-positions (0..63) of an unsigned 64-bit number
VarintBits(S) ==
  LET last == IF S = {} THEN 0 ELSE Max(S) \div 7
      grp(g) == FoldSet(LAMBDA b, acc : acc + Pow2(b - 7 * g), 0, {b \in S : b \div 7 = g})
  IN [x \in 1..(last + 1) |-> grp(x - 1) + (IF x - 1 < last THEN 128 ELSE 0)]

LE64(n) == <<n % 256, (n \div 256) % 256, (n \div 65536) % 256, (n \div 16777216) % 256, 0, 0, 0, 0>>

\* ---- proto3 fields -------------------------------------------------------------
Tag(f, wt)   == VarintN(8 * f + wt)
LD(f, bs)    == Tag(f, 2) \o VarintN(Len(bs)) \o bs            \* length-delimited, always written
OptInt(f, n) == IF n = 0 THEN <<>> ELSE Tag(f, 0) \o VarintN(n)
OptBytes(f, bs) == IF Len(bs) = 0 THEN <<>> ELSE LD(f, bs)
PackedN(f, s) == IF Len(s) = 0 THEN <<>> ELSE LD(f, FlattenSeq([i \in 1..Len(s) |-> VarintN(s[i])]))
PackedW(f, ws) == IF Len(ws) = 0 THEN <<>> ELSE LD(f, FlattenSeq([i \in 1..Len(ws) |-> VarintBits(ws[i])]))

\* ---- messages -------------------------------------------------------------------
WordsOf(bm) == [w \in 1..bm.nwords |-> {b - 64 * (w - 1) : b \in {x \in bm.bits : x \div 64 = w - 1}}]
\* message Bitmap { Words = 20; RankIndex = 30; SelectIndex = 40 }
BitmapMsg(bm) == PackedW(20, WordsOf(bm)) \o PackedN(30, bm.rank) \o PackedN(40, bm.sel)
\* nwords = -1 stands for a nil pointer
OptBM(f, bm) == IF bm.nwords < 0 THEN <<>> ELSE LD(f, BitmapMsg(bm))

\* message VLenArray { N = 10; EltCnt = 11; PositionBM = 20; FixedSize = 23; Bytes = 30; PresenceBM = 61 }
VLenMsg(n, eltcnt, position, fixed, bytes, presence) ==
  OptInt(10, n) \o OptInt(11, eltcnt) \o OptBM(20, position) \o OptInt(23, fixed)
  \o OptBytes(30, bytes) \o OptBM(61, presence)

NilBM == [bits |-> {}, nwords |-> -1, rank |-> <<>>, sel |-> <<>>]

\* message Slim { BigInnerCnt = 11; ShortSize = 14; NodeTypeBM = 20; Inners = 30; ShortBM = 31;
\*                ShortTable = 32; InnerPrefixes = 38; LeafPrefixes = 58; Leaves = 60 }
\* the creator sets N only for Leaves and EltCnt only for InnerPrefixes and Leaves
SlimMsg(m) ==
  OptInt(11, m.bigcnt) \o OptInt(14, m.shortsize)
  \o LD(20, BitmapMsg(m.nodetype)) \o LD(30, BitmapMsg(m.inners)) \o LD(31, BitmapMsg(m.shortbm))
  \o PackedN(32, m.shorttable)
  \o LD(38, VLenMsg(0, m.ip.eltcnt, m.ip.position, m.ip.fixed, m.ip.bytes, m.ip.presence))
  \o (IF m.lp.present THEN LD(58, VLenMsg(0, 0, m.lp.position, 0, m.lp.bytes, m.lp.presence)) ELSE <<>>)
  \o (IF m.leaves.present
      THEN LD(60, VLenMsg(m.leaves.n, m.leaves.eltcnt, m.leaves.position, m.leaves.fixed, m.leaves.bytes, m.leaves.presence))
      ELSE <<>>)

\* ---- the stream ------------------------------------------------------------------
CurrentVersionChars == <<48, 46, 53, 46, 49, 50>>                  \* "0.5.12"
HeaderBytes(ver, bodylen) ==
  ver \o [x \in 1..(16 - Len(ver)) |-> 0] \o LE64(HeaderLen) \o LE64(bodylen)

StreamOfBody(ver, body) == HeaderBytes(ver, Len(body)) \o body
Stream(m) == StreamOfBody(CurrentVersionChars, SlimMsg(m))

\* the fields the loader reads from the first 32 bytes
HeaderVersion(bs) == LET v == SubSeq(bs, 1, 16) p == SelectInSeq(v, LAMBDA c : c = 0) IN
                     IF p = 0 THEN v ELSE SubSeq(v, 1, p - 1)
HeaderBodyLen(bs) == bs[25] + 256 * bs[26] + 65536 * bs[27] + 16777216 * bs[28]
=============================================================================
