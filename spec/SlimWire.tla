------------------------------ MODULE SlimWire ------------------------------
(***************************************************************************)
(* Level C: the byte stream Marshal writes, as a function of the stored    *)
(* form of SlimEncode (trie/slim.proto, golang/protobuf table marshaller,   *)
(* low/pbcmpl header).                                                      *)
(*                                                                          *)
(*   stream  = header body                                                  *)
(*   header  = version string, zero padded to 16 bytes                      *)
(*             header size (32) as little-endian uint64                     *)
(*             body size        as little-endian uint64                     *)
(*   body    = proto3 encoding of message Slim: fields in field-number      *)
(*             order, zero scalars / empty repeated / nil messages omitted, *)
(*             repeated scalars packed, a non-nil empty message written as  *)
(*             tag + length 0                                               *)
(*                                                                          *)
(* A 64-bit bitmap word does not fit a TLC integer, so a word travels as    *)
(* the set of its one-positions and its varint is computed 7 bits at a      *)
(* time from that set.                                                      *)
(*                                                                          *)
(* What this level adds: "Marshal is a function of (keys, values, options)" *)
(* (C05's byte stability) and "nothing in the stream grows with the key     *)
(* length in filter mode" (C17) become statements about Stream(Encode(c)),  *)
(* byte for byte, and the header the loader's staged checks read (C07) is   *)
(* the one written here.  Bound to the code by the `proto` events, which    *)
(* carry the real Marshal() output for streams up to 2 KiB.                 *)
(***************************************************************************)
EXTENDS SlimReader, ProtoWire

\* ---- messages -------------------------------------------------------------------
WordsOf(bm) == [w \in 1..bm.nwords |-> {b - 64 * (w - 1) : b \in {x \in bm.bits : x \div 64 = w - 1}}]
\* message Bitmap { Words = 20; RankIndex = 30; SelectIndex = 40 }
BitmapMsg(bm) == PackedW(20, WordsOf(bm)) \o PackedN(30, bm.rank) \o PackedN(40, bm.sel)
\* nwords = -1 stands for a nil pointer
OptBM(f, bm) == IF bm.nwords < 0 THEN <<>> ELSE LD(f, BitmapMsg(bm))

\* message VLenArray { N = 10; EltCnt = 11; PositionBM = 20; FixedSize = 23; Bytes = 30; PresenceBM = 61 }
VLenMsg(n, eltcnt, position, fixed, bytes, presence) ==
  OptInt(10, n) \o OptInt(11, eltcnt) \o OptBM(20, position) \o OptInt(23, fixed)
  \o OptBytes(30, bytes) \o OptBM(61, presence)

NilBM == [bits |-> {}, nwords |-> -1, rank |-> <<>>, sel |-> <<>>]

\* message Slim { BigInnerCnt = 11; ShortSize = 14; NodeTypeBM = 20; Inners = 30; ShortBM = 31;
\*                ShortTable = 32; InnerPrefixes = 38; LeafPrefixes = 58; Leaves = 60 }
\* the creator sets N only for Leaves and EltCnt only for InnerPrefixes and Leaves
SlimMsg(m) ==
  OptInt(11, m.bigcnt) \o OptInt(14, m.shortsize)
  \o LD(20, BitmapMsg(m.nodetype)) \o LD(30, BitmapMsg(m.inners)) \o LD(31, BitmapMsg(m.shortbm))
  \o PackedN(32, m.shorttable)
  \o LD(38, VLenMsg(0, m.ip.eltcnt, m.ip.position, m.ip.fixed, m.ip.bytes, m.ip.presence))
  \o (IF m.lp.present THEN LD(58, VLenMsg(0, 0, m.lp.position, 0, m.lp.bytes, m.lp.presence)) ELSE <<>>)
  \o (IF m.leaves.present
      THEN LD(60, VLenMsg(m.leaves.n, m.leaves.eltcnt, m.leaves.position, m.leaves.fixed, m.leaves.bytes, m.leaves.presence))
      ELSE <<>>)

\* ---- the stream ------------------------------------------------------------------
CurrentVersionChars == <<48, 46, 53, 46, 49, 50>>                  \* "0.5.12"
HeaderBytes(ver, bodylen) ==
  ver \o [x \in 1..(16 - Len(ver)) |-> 0] \o LE64(HeaderLen) \o LE64(bodylen)

StreamOfBody(ver, body) == HeaderBytes(ver, Len(body)) \o body
Stream(m) == StreamOfBody(CurrentVersionChars, SlimMsg(m))

\* ---- the reader's side: parsing a body back into the stored form -------------------
ParseBitmap(bs) ==
  LET fs == Fields(bs, 1)
      ws == Unpack(BytesF(fs, 20), 1) IN
  [bits |-> UNION {{64 * (w - 1) + b : b \in ws[w]} : w \in 1..Len(ws)},
   nwords |-> Len(ws), rank |-> UnpackN(BytesF(fs, 30)), sel |-> UnpackN(BytesF(fs, 40))]
ParseOptBM(fs, f) == IF HasF(fs, f) THEN ParseBitmap(BytesF(fs, f)) ELSE NilBM

\* the stored form as SlimEncode describes it, read back from a body
ParseSlimMsg(body) ==
  LET fs  == Fields(body, 1)
      ipf == Fields(BytesF(fs, 38), 1)
      lpf == Fields(BytesF(fs, 58), 1)
      lvf == Fields(BytesF(fs, 60), 1) IN
  [bigcnt |-> IntF(fs, 11), shortsize |-> IntF(fs, 14), shorttable |-> UnpackN(BytesF(fs, 32)),
   nodetype |-> ParseOptBM(fs, 20), inners |-> ParseOptBM(fs, 30), shortbm |-> ParseOptBM(fs, 31),
   ip |-> [eltcnt |-> IntF(ipf, 11), presence |-> ParseOptBM(ipf, 61), fixed |-> IntF(ipf, 23),
           position |-> ParseOptBM(ipf, 20), bytes |-> BytesF(ipf, 30)],
   lp |-> IF ~HasF(fs, 58) THEN [present |-> FALSE]
          ELSE [present |-> TRUE, presence |-> ParseOptBM(lpf, 61), position |-> ParseOptBM(lpf, 20), bytes |-> BytesF(lpf, 30)],
   leaves |-> IF ~HasF(fs, 60) THEN [present |-> FALSE]
              ELSE [present |-> TRUE, n |-> IntF(lvf, 10), eltcnt |-> IntF(lvf, 11), presence |-> ParseOptBM(lvf, 61),
                    fixed |-> IntF(lvf, 23), position |-> ParseOptBM(lvf, 20), bytes |-> BytesF(lvf, 30)]]

\* the fields the loader reads from the first 32 bytes
HeaderVersion(bs) == LET v == SubSeq(bs, 1, 16) p == SelectInSeq(v, LAMBDA c : c = 0) IN
                     IF p = 0 THEN v ELSE SubSeq(v, 1, p - 1)
HeaderBodyLen(bs) == bs[25] + 256 * bs[26] + 65536 * bs[27] + 16777216 * bs[28]

\* pbcmpl.Unmarshal of the bytes bs: "short" when the header or the announced body is
\* not all there; otherwise the body it hands to the protobuf parser
ReadSection(bs) ==
  IF Len(bs) < HeaderLen THEN [err |-> "short", body |-> <<>>]
  ELSE IF Len(bs) - HeaderLen < HeaderBodyLen(bs) THEN [err |-> "short", body |-> <<>>]
  ELSE [err |-> "", body |-> SubSeq(bs, HeaderLen + 1, HeaderLen + HeaderBodyLen(bs))]
=============================================================================
