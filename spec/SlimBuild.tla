----------------------------- MODULE SlimBuild -----------------------------
(***************************************************************************)
(* Model ("implementation-shaped") semantics of construction:              *)
(* trie/slimtrie_create.go newSlim / creator.build.                        *)
(*                                                                         *)
(* The result is a NODE TABLE: a sequence of node records in BFS order;    *)
(* the sequence index is the node id + 1 (GetID of the code = index - 1).  *)
(*                                                                         *)
(*   leaf : [inner |-> FALSE, key, from]                                   *)
(*   inner: [inner |-> TRUE, big, from, ws, key, labels, first]            *)
(*                                                                         *)
(*   key    index (into the key list) of the first key of the node's       *)
(*          subset; for a leaf the one key it stands for                   *)
(*   from   half-byte position where the subset starts (after the parent's *)
(*          label)                                                         *)
(*   ws     half-byte position of the node's label word ("wordStart")      *)
(*   big    TRUE for a 257-bit node (label = whole byte), else 17-bit      *)
(*   labels ascending label codes: 0 = empty label (key ends here),        *)
(*          1 + half-byte or 1 + byte otherwise                            *)
(*   first  table index of the first child; children are consecutive       *)
(*                                                                         *)
(* Construction is evaluated LEVEL BY LEVEL (recursion depth = height of   *)
(* the trie), everything inside a level being a comprehension or a         *)
(* Java-backed fold, see DESIGN.md appendix B.                             *)
(*                                                                         *)
(* Constants let small worlds reach the thresholds of the real code:       *)
(*   BigMin    a node becomes 257-bit when more than BigMin distinct bytes *)
(*             (or end-of-key) occur at its branch byte (code: 10)         *)
(*   ShortCost bits one short-table entry costs (code: 64)                 *)
(*   MaxShort  largest short bitmap size considered (code: 10)             *)
(*   StepBits  width of a stored step counter, in half-bytes (code: 16)    *)
(***************************************************************************)
EXTENDS SlimRef

CONSTANTS BigMin, ShortCost, MaxShort, StepBits

RECURSIVE Pow2(_)
Pow2(n) == IF n = 0 THEN 1 ELSE 2 * Pow2(n - 1)

\* which keys are kept: with dedup on and values supplied, a key whose encoded
\* value equals its predecessor's is dropped (newToKeep)
KeepFn(n, vals, hasvals, dd) ==
  [i \in 1..n |-> ~(dd /\ hasvals) \/ i = 1 \/ vals[i] # vals[i-1]]

Label(k, ws, w) ==
  IF ws >= NibLen(k) THEN 0
  ELSE IF w = 1 THEN 1 + Nib(k, ws) ELSE 1 + k[(ws \div 2) + 1]

ByteVal(k, bp) == IF bp >= Len(k) THEN -1 ELSE k[bp + 1]

\* fd[x] = first differing half-byte of keys x and x+1 (computed once)
AdjFD(ks) == [x \in 1..(Len(ks) - 1) |-> FDN(ks[x], ks[x+1])]

\* information about the subset o = [s, e, from] (e exclusive)
SubInfo(ks, fd, o) ==
  IF o.e - o.s = 1 THEN [inner |-> FALSE]
  ELSE LET md == Min({fd[x] : x \in o.s..(o.e - 2)})
       IN [inner |-> TRUE, md |-> md,
           \* eligible for a 257-bit node: > BigMin distinct byte values (or end
           \* of key) at the byte that contains the first difference
           elig |-> Cardinality({ByteVal(ks[i], md \div 2) : i \in o.s..(o.e - 1)}) > BigMin]

\* the inner node of subset o branching at half-byte md, and its child subsets.
\* Labels come from KEPT keys only; a child subset is the run of ALL keys that
\* carry the label.
MkInner(ks, keep, o, md, big) ==
  LET w      == IF big THEN 2 ELSE 1
      ws     == IF big THEN md - (md % 2) ELSE md
      lab    == [x \in o.s..(o.e - 1) |-> Label(ks[x], ws, w)]
      keptL  == {lab[x] : x \in {y \in o.s..(o.e - 1) : keep[y]}}
      labels == SetToSortSeq(keptL, <)
      ch     == [li \in 1..Len(labels) |->
                   LET idx == {x \in o.s..(o.e - 1) : lab[x] = labels[li]}
                       f   == Min(idx)
                   IN [s |-> f, e |-> f + Cardinality(idx),
                       from |-> ws + (IF labels[li] = 0 THEN 0 ELSE w)]]
  IN [node |-> [inner |-> TRUE, big |-> big, from |-> o.from, ws |-> ws,
                key |-> o.s, labels |-> labels, first |-> 0],
      ch   |-> ch]

\* nodes of this level and of all deeper ones.  `base` = table index of the
\* first node of the level; bigOpen = the creator's isBig latch.
RECURSIVE Levels(_, _, _, _, _, _)
Levels(ks, fd, keep, subs, base, bigOpen) ==
  IF Len(subs) = 0 THEN <<>>
  ELSE
   LET L        == Len(subs)
       info     == [j \in 1..L |-> SubInfo(ks, fd, subs[j])]
       badSet   == {j \in 1..L : info[j].inner /\ ~info[j].elig}
       \* the first inner node (in BFS order) that is not eligible clears the
       \* latch for itself and for every later node
       firstBad == IF badSet = {} THEN L + 1 ELSE Min(badSet)
       raw      == [j \in 1..L |->
                      IF info[j].inner
                      THEN MkInner(ks, keep, subs[j], info[j].md, bigOpen /\ j < firstBad)
                      ELSE [node |-> [inner |-> FALSE, key |-> subs[j].s, from |-> subs[j].from],
                            ch |-> <<>>]]
       pre      == FoldLeft(LAMBDA acc, j : Append(acc, acc[Len(acc)] + Len(raw[j].ch)),
                            <<0>>, [j \in 1..L |-> j])
       nodesL   == [j \in 1..L |-> IF info[j].inner
                                   THEN [raw[j].node EXCEPT !.first = base + L + pre[j]]
                                   ELSE raw[j].node]
       nextSubs == FlattenSeq([j \in 1..L |-> raw[j].ch])
   IN nodesL \o Levels(ks, fd, keep, nextSubs, base + L, bigOpen /\ firstBad = L + 1)

\* bigLatch = FALSE models the legacy conversion, which starts with the latch
\* clear
BuildNodes(ks, vals, hasvals, dd, bigLatch) ==
  IF Len(ks) = 0 THEN <<>>
  ELSE Levels(ks, AdjFD(ks), KeepFn(Len(ks), vals, hasvals, dd),
              <<[s |-> 1, e |-> Len(ks) + 1, from |-> 0]>>, 1, bigLatch)

\* ------------------------------------------------------------------------
\* stored payload of a node
Step(n) == n.ws - n.from                    \* skipped half-bytes
\* what a 16-bit step counter keeps of it (encStep truncates)
StoredStep(n) == Step(n) % Pow2(StepBits)
\* does every step of the table fit its counter?  Without InnerPrefix a
\* longer single-branch run cannot be encoded.
StepsFit(nodes) == \A i \in 1..Len(nodes) : nodes[i].inner => Step(nodes[i]) < Pow2(StepBits)

W(n) == IF n.big THEN 2 ELSE 1
NumChildren(n) == Len(n.labels)

\* stored inner prefix: the bytes from the byte that contains n.from up to
\* (the byte that contains) n.ws - 1; the last byte is cut at n.ws
PrefixBytes(ks, n) ==
  LET k  == ks[n.key]
      b0 == (n.from \div 2) + 1
      b1 == (n.ws + 1) \div 2             \* last byte index (1-based), inclusive
  IN [x \in 1..(b1 - b0 + 1) |->
        LET v == k[b0 + x - 1]
        IN IF b0 + x - 1 = b1 /\ n.ws % 2 = 1 THEN (v \div 16) * 16 ELSE v]
\* length of the stored prefix in half-bytes, counted from the byte boundary
PrefixNibs(n) == n.ws - (n.from - (n.from % 2))

LeafTail(ks, n) == TailFrom(ks[n.key], n.from)

\* ------------------------------------------------------------------------
\* levels as initLevels computes them: cumulative <<total, inner, leaf>> per
\* level, preceded by the trivial <<0,0,0>>.
InnerCountBefore(nodes) ==      \* cnt[i] = inner nodes among nodes[1..i-1]
  FoldLeft(LAMBDA acc, i : Append(acc, acc[Len(acc)] + (IF nodes[i].inner THEN 1 ELSE 0)),
           <<0>>, [i \in 1..Len(nodes) |-> i])

RECURSIVE LevelWalk(_, _, _, _)
\* cur = table index of the first node of the current level
LevelWalk(nodes, icb, cur, totalInner) ==
  LET innerBefore == icb[cur]
      here == <<cur - 1, innerBefore, cur - 1 - innerBefore>>
  IN IF innerBefore = totalInner THEN <<here>>
     ELSE LET nxt == CHOOSE i \in cur..Len(nodes) :
                        nodes[i].inner /\ \A j \in cur..(i - 1) : ~nodes[j].inner
          IN <<here>> \o LevelWalk(nodes, icb, nodes[nxt].first, totalInner)

ModelLevels(nodes) ==
  IF Len(nodes) = 0 THEN << <<0, 0, 0>> >>
  ELSE LET icb == InnerCountBefore(nodes)
           ti  == icb[Len(nodes) + 1]
       IN LevelWalk(nodes, icb, 1, ti) \o << <<Len(nodes), ti, Len(nodes) - ti>> >>

\* ------------------------------------------------------------------------
\* short-node selection (creator.build / findMinShortSize)
RECURSIVE Pop(_)
Pop(x) == IF x = 0 THEN 0 ELSE (x % 2) + Pop(x \div 2)

\* the 17-bit bitmap of a non-big node as a number: bit c set for label code c
BmOf(labels) == FoldLeft(LAMBDA acc, c : acc + Pow2(c), 0, labels)

InnerSeq(nodes) == SelectSeq(nodes, LAMBDA n : n.inner)

\* per popcount nb: sequence of <<bitmap, uses>> over non-big inner nodes with
\* <= MaxShort labels, most used first, larger bitmap first on ties
SortedBMs(inn) ==
  LET cand  == {i \in 1..Len(inn) : ~inn[i].big /\ Len(inn[i].labels) <= MaxShort}
      bmAt  == [i \in 1..Len(inn) |-> IF i \in cand THEN BmOf(inn[i].labels) ELSE -1]
      bms   == {bmAt[i] : i \in cand}
      cntOf == [b \in bms |-> Cardinality({i \in cand : bmAt[i] = b})]
  IN [nb \in 0..MaxShort |->
        SetToSortSeq({<<b, cntOf[b]>> : b \in {x \in bms : Pop(x) = nb}},
                     LAMBDA p, q : p[2] > q[2] \/ (p[2] = q[2] /\ p[1] > q[1]))]

\* number of s-bit numbers with popcount nb = binomial(s, nb); tabulated once
\* (a constant-level definition is evaluated once by TLC)
RECURSIVE BinomRec(_, _)
BinomRec(n, k) == IF k = 0 THEN 1 ELSE IF n = 0 THEN 0 ELSE BinomRec(n - 1, k - 1) + BinomRec(n - 1, k)
BinomTab == TLCEval([n \in 0..MaxShort |-> TLCEval([k \in 0..MaxShort |-> BinomRec(n, k)])])
NShorts(s, nb) == BinomTab[s][nb]

MemIncr(sorted, s) ==
  Pow2(s) * ShortCost -
  (17 - s) * FoldLeft(LAMBDA acc, nb :
                 acc + FoldLeft(LAMBDA a2, k : a2 + sorted[nb][k][2], 0,
                                [k \in 1..Min2(NShorts(s, nb), Len(sorted[nb])) |-> k]),
               0, [x \in 1..(s + 1) |-> x - 1])

ShortSizeOf(sorted) ==
  LET costs == [s \in 0..MaxShort |-> MemIncr(sorted, s)]
      best  == Min({costs[s] : s \in 0..MaxShort})
  IN Min({s \in 0..MaxShort : costs[s] = best})

\* table[short + 1] = the 17-bit bitmap the short bitmap stands for, 0 if unused
ShortTableOf(sorted, s) ==
  [x \in 1..Pow2(s) |->
     LET short == x - 1
         nb    == Pop(short)
         r     == Cardinality({y \in 0..short : Pop(y) = nb})
     IN IF r <= Len(sorted[nb]) THEN sorted[nb][r][1] ELSE 0]

\* 1 for each inner node (in BFS order) that is stored as a short node
ShortFlagsOf(inn, table) ==
  LET T == {table[x] : x \in 1..Len(table)} \ {0}
  IN [i \in 1..Len(inn) |->
        IF ~inn[i].big /\ Len(inn[i].labels) <= MaxShort /\ BmOf(inn[i].labels) \in T
        THEN 1 ELSE 0]

ShortSelect(nodes) ==
  LET inn    == InnerSeq(nodes)
      sorted == SortedBMs(inn)
      s      == ShortSizeOf(sorted)
      table  == ShortTableOf(sorted, s)
  IN [size |-> s, table |-> table, flags |-> ShortFlagsOf(inn, table),
      bigcnt |-> Cardinality({i \in 1..Len(inn) : inn[i].big})]
=============================================================================
