CONSTANTS
  BigMin = 2
  ShortCost = 2
  MaxShort = 10
  StepBits = 16
  Alphabet = {0, 1, 16, 128, 255}
  MaxLen = 2
  MaxKeys = 3
INIT Init
NEXT Next
INVARIANTS RoundTrip CutRefused FilterSize
CHECK_DEADLOCK FALSE
