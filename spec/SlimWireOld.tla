---------------------------- MODULE SlimWireOld ----------------------------
(***************************************************************************)
(* Level C for the HISTORICAL layouts: the byte streams that versions      *)
(* 0.5.0 .. 0.5.11 wrote, as functions of the key/value list.              *)
(*                                                                         *)
(* THREE SECTIONS (0.5.0 .. 0.5.9): children, steps, leaves -- each a      *)
(* compacted array (array.Array32: Cnt, Bitmaps, Offsets, Elts [, Flags,   *)
(* EltWidth, BMElts]) indexed by the node id of the OLD trie, each under   *)
(* its own pbcmpl header.  Differences between the versions:               *)
(*   patch <= 3   a child element is 4 bytes: 16-bit label bitmap, 16-bit  *)
(*                id of the first child                                    *)
(*   patch >= 4   the label bitmaps are packed 4 per word in BMElts with a *)
(*                rank index per 128 bits; Flags = 3, EltWidth = 16 (from  *)
(*                0.5.7 on not for the empty trie)                         *)
(*   patch  = 0   a leaf whose key continues stores the remaining length   *)
(*                as a "step"                                              *)
(*   patch <= 7   the header says "1.0.0"; later the real version          *)
(*   patch >= 9   every array's bitmap covers all node ids                 *)
(*                                                                         *)
(* 0.5.10 / 0.5.11: one section; the current message with the fields       *)
(* 12, 13, 15 that were removed later (BigInnerOffset, ShortMinusInner,    *)
(* ShortMask), inner prefixes in control-byte form, a word-granular select *)
(* index, and bare leaf bytes.                                             *)
(*                                                                         *)
(* No writer of these layouts exists in the repository any more.  This     *)
(* module is the definition; the harness's Go writers are checked against  *)
(* it on every trace (legacy events carry the bytes they wrote) and        *)
(* against the 97 archived fixture files (calibration event).              *)
(***************************************************************************)
EXTENDS SlimWire

LE16(n) == <<n % 256, (n \div 256) % 256>>
NumOfSet(S) == FoldSet(LAMBDA b, a : a + Pow2(b), 0, S)

\* ---- array.Array32 ---------------------------------------------------------------
\* the compacted array over the ascending index list idx (0-based ids)
A32(idx, elts, total, ext) ==
  LET top == IF Len(idx) = 0 THEN 0 ELSE idx[Len(idx)] + 1
      n   == IF ext /\ total > top THEN total ELSE top
      nw  == CeilDiv64(n)
      S   == {idx[x] : x \in 1..Len(idx)}
      wb(w) == {b - 64 * (w - 1) : b \in {x \in S : x \div 64 = w - 1}}
  IN [cnt |-> Len(idx), words |-> [w \in 1..nw |-> wb(w)],
      \* ZERO for an empty word (a quirk the loader relies on being harmless)
      offsets |-> [w \in 1..nw |-> IF wb(w) = {} THEN 0 ELSE Cardinality({x \in S : x < 64 * (w - 1)})],
      elts |-> elts]

NoBits == [present |-> FALSE]
\* message Bits { Flags = 1; N = 10; Words = 20; RankIndex = 30 }
BitsMsg(b) == OptInt(10, b.n) \o PackedW(20, b.words) \o PackedN(30, b.rank)
\* message Array32 { Cnt = 1; Bitmaps = 2; Offsets = 3; Elts = 4; Flags = 10; EltWidth = 20; BMElts = 30 }
A32Msg(a, flags, eltwidth, bmelts) ==
  OptInt(1, a.cnt) \o PackedW(2, a.words) \o PackedN(3, a.offsets) \o OptBytes(4, a.elts)
  \o OptInt(10, flags) \o OptInt(20, eltwidth)
  \o (IF bmelts.present THEN LD(30, BitsMsg(bmelts)) ELSE <<>>)

\* ---- the three sections ---------------------------------------------------------------
\* old: OldTrie(ks); vals[i]: encoded value of key i (all of one width); patch: 0..9
V3StreamH(old, vals, patch, hp) ==
  LET N     == Len(old)
      ids(P(_)) == SetToSortSeq({i - 1 : i \in {x \in 1..N : P(old[x])}}, <)
      \* hp: the header version the stream is stamped with: -1 the writer's own (1.0.0 up to
      \* 0.5.7, its own version from 0.5.8 on); 0 = "1.0.0"; 8, 9 = "0.5.8", "0.5.9" (the
      \* combinations of content and header that no release wrote but the loader accepts)
      hv    == IF hp = -1 THEN (IF patch >= 8 THEN patch ELSE 0) ELSE hp
      hver  == IF hv >= 8 THEN <<48, 46, 53, 46, 48 + hv>> ELSE <<49, 46, 48, 46, 48>>
      ext   == patch >= 9
      inn   == ids(LAMBDA n : n.inner)
      \* children
      celts == IF patch <= 3
               THEN FlattenSeq([x \in 1..Len(inn) |-> LE16(NumOfSet(old[inn[x] + 1].bm)) \o LE16(old[inn[x] + 1].first)])
               ELSE <<>>
      packed == UNION {{16 * (x - 1) + lab : lab \in old[inn[x] + 1].bm} : x \in 1..Len(inn)}
      nbw   == (Len(inn) + 3) \div 4
      bme   == IF patch >= 4 /\ ~(patch >= 7 /\ N = 0)
               THEN [present |-> TRUE, n |-> IF packed = {} THEN 0 ELSE Max(packed) + 1,
                     words |-> [w \in 1..nbw |-> {b - 64 * (w - 1) : b \in {x \in packed : x \div 64 = w - 1}}],
                     rank |-> R128(packed, nbw)]
               ELSE NoBits
      \* steps
      stepped == ids(LAMBDA n : (n.inner /\ n.step > 1) \/ (patch = 0 /\ ~n.inner /\ n.lstep > 1))
      selts == FlattenSeq([x \in 1..Len(stepped) |->
                             LET n == old[stepped[x] + 1] IN LE16(IF n.inner THEN n.step ELSE n.lstep)])
      \* leaves
      lf    == ids(LAMBDA n : n.leaf)
      lelts == FlattenSeq([x \in 1..Len(lf) |-> vals[old[lf[x] + 1].key]])
  IN StreamOfBody(hver, A32Msg(A32(inn, celts, N, ext), IF bme.present THEN 3 ELSE 0, IF bme.present THEN 16 ELSE 0, bme))
     \o StreamOfBody(hver, A32Msg(A32(stepped, selts, N, ext), 0, 0, NoBits))
     \o StreamOfBody(hver, A32Msg(A32(lf, lelts, N, ext), 0, 0, NoBits))
V3Stream(old, vals, patch) == V3StreamH(old, vals, patch, -1)

\* ---- the loader's view of a three-section stream ---------------------------------------
\* split a stream into its sections' bodies (each pbcmpl.Unmarshal reads one header and the
\* body it announces); <<>> if a header or body is short
RECURSIVE Sections(_)
Sections(bs) ==
  IF Len(bs) = 0 THEN <<>>
  ELSE LET r == ReadSection(bs) IN
       IF r.err # "" THEN <<[bad |-> TRUE, body |-> <<>>]>>
       ELSE <<[bad |-> FALSE, body |-> r.body]>> \o Sections(SubSeq(bs, HeaderLen + Len(r.body) + 1, Len(bs)))

\* message Array32 read back: [cnt, bits (member ids), words, offsets, elts, flags, bmwords (bit set)]
ParseA32(body) ==
  LET fs == Fields(body, 1)
      ws == Unpack(BytesF(fs, 2), 1)
      bf == Fields(BytesF(fs, 30), 1)
      bw == Unpack(BytesF(bf, 20), 1) IN
  [cnt |-> IntF(fs, 1),
   bits |-> UNION {{64 * (w - 1) + b : b \in ws[w]} : w \in 1..Len(ws)},
   nwords |-> Len(ws),
   offsets |-> UnpackN(BytesF(fs, 3)), elts |-> BytesF(fs, 4), flags |-> IntF(fs, 10),
   bmbits |-> UNION {{64 * (w - 1) + b : b \in bw[w]} : w \in 1..Len(bw)}]

\* bitmap.Rank64(a.Bitmaps, a.Offsets, id): position of id among the members, computed the
\* way the accessors do -- the stored offset of the word + the members below id in it
EltIdx(a, id) == a.offsets[(id \div 64) + 1] + Cardinality({x \in a.bits : x \div 64 = id \div 64 /\ x < id})

\* the old node with id `id` (0-based) as before000510ToNewChildrenArray reads it:
\* bmhas on the children and leaves bitmaps, getBM16Child, getStepBefore000510, GetBytes
OldNodeOf(ch, st, lv, id, valsize) ==
  LET inner == id \in ch.bits
      leaf  == id \in lv.bits
      k     == EltIdx(ch, id)
      bm    == IF ~inner THEN {}
               ELSE IF ch.flags % 2 = 0            \* ArrayFlagIsBitmap clear: 4-byte elements
               THEN BitsOfNum(ch.elts[4 * k + 1] + 256 * ch.elts[4 * k + 2], 0)
               ELSE {b - 16 * k : b \in {x \in ch.bmbits : x \div 16 = k}}
      step  == IF id \in st.bits THEN LET j == EltIdx(st, id) IN st.elts[2 * j + 1] + 256 * st.elts[2 * j + 2] ELSE 1
      val   == IF leaf THEN LET j == EltIdx(lv, id) IN SubSeq(lv.elts, valsize * j + 1, valsize * (j + 1)) ELSE <<>>
  IN [inner |-> inner, leaf |-> leaf, bm |-> bm, step |-> step, val |-> val]

\* all old nodes of a stream; <<>> if the stream is not three well-formed sections
ReadV3(bs, valsize) ==
  LET secs == Sections(bs) IN
  IF Len(secs) # 3 \/ \E i \in 1..3 : secs[i].bad THEN <<>>
  ELSE LET ch == ParseA32(secs[1].body)  st == ParseA32(secs[2].body)  lv == ParseA32(secs[3].body)
           ids == ch.bits \cup lv.bits
           N == IF ids = {} THEN 0 ELSE Max(ids) + 1
       IN [i \in 1..N |-> OldNodeOf(ch, st, lv, i - 1, valsize)]

\* ---- 0.5.10 / 0.5.11 -----------------------------------------------------------------
\* a negative int32 travels as the 64-bit two's complement: x in -31..-1
NegVarint(x) == VarintBits(BitsOfNum(32 + x, 0) \cup 5..63)
\* bitstr element (payload, trailing mask byte) -> control byte, payload with an end mark
OldPrefixElt(e) ==
  LET pl == SubSeq(e, 1, Len(e) - 1) IN
  IF e[Len(e)] = 255 THEN <<0>> \o pl
  ELSE <<1>> \o [pl EXCEPT ![Len(pl)] = IF (@ \div 8) % 2 = 1 THEN @ ELSE @ + 8]
WordSel(bm) == IF bm.nwords < 0 THEN bm ELSE [bm EXCEPT !.sel = [x \in 1..Len(bm.sel) |-> bm.sel[x] \div 64]]

\* m: Encode(c) of the trie the options describe; pfxElts: the stored prefix elements
Old0510Body(m, pfxElts) ==
  OptInt(11, m.bigcnt) \o OptInt(12, 240 * m.bigcnt)
  \o (IF m.shortsize = 17 THEN <<>> ELSE Tag(13, 0) \o NegVarint(m.shortsize - 17))
  \o OptInt(14, m.shortsize)
  \o (IF m.shortsize = 0 THEN <<>> ELSE Tag(15, 0) \o VarintBits(0..(m.shortsize - 1)))
  \o LD(20, BitmapMsg(m.nodetype)) \o LD(30, BitmapMsg(m.inners)) \o LD(31, BitmapMsg(m.shortbm))
  \o PackedN(32, m.shorttable)
  \o LD(38, VLenMsg(0, m.ip.eltcnt, WordSel(m.ip.position), m.ip.fixed,
                    IF m.ip.fixed = 0 THEN FlattenSeq([x \in 1..Len(pfxElts) |-> OldPrefixElt(pfxElts[x])]) ELSE m.ip.bytes,
                    m.ip.presence))
  \o (IF m.lp.present THEN LD(58, VLenMsg(0, 0, WordSel(m.lp.position), 0, m.lp.bytes, m.lp.presence)) ELSE <<>>)
  \o (IF m.leaves.present THEN LD(60, OptBytes(30, m.leaves.bytes)) ELSE <<>>)

\* the stored prefix elements of a content record (as Encode lays them out)
PrefixEltsOf(c) ==
  LET inn == InnerSeq(c.nodes)
      stepSeq == SetToSortSeq({k \in 1..Len(inn) : HasStep(inn[k])}, <)
  IN [x \in 1..Len(stepSeq) |-> PrefixElt(c.ks, inn[stepSeq[x]])]

\* minor: 10 or 11
Old0510Stream(c, minor) ==
  LET ver == <<48, 46, 53, 46, 49, 48 + (minor - 10)>> IN
  IF Len(c.nodes) = 0 THEN StreamOfBody(ver, <<>>)
  ELSE StreamOfBody(ver, Old0510Body(Encode(c), IF c.o.innp THEN PrefixEltsOf(c) ELSE <<>>))

\* ---- the loader's conversion of a 0.5.10 / 0.5.11 body --------------------------------
\* (Unmarshal: the body is parsed as the CURRENT message -- fields 12, 13, 15 are unknown to
\* it and ignored -- then before000512InnerPrefixTobitstr and before000512FixLeafSize)
\* control byte + payload with end mark -> payload + trailing mask byte (bitstr), in place
NewPrefixElt(o) ==
  LET pl == SubSeq(o, 2, Len(o)) IN
  IF o[1] % 2 = 0 THEN pl \o <<255>>
  ELSE LET last == pl[Len(pl)]
           nz   == CHOOSE z \in 0..7 : (last \div Pow2(z)) % 2 = 1 /\ \A y \in 0..(z - 1) : (last \div Pow2(y)) % 2 = 0
       IN [pl EXCEPT ![Len(pl)] = last - Pow2(nz)] \o <<256 - Pow2(nz + 1)>>
ConvertPrefixes(position, bytes) ==
  LET pos == SetToSortSeq(position.bits, <) IN
  FlattenSeq([x \in 1..(Len(pos) - 1) |-> NewPrefixElt(SubSeq(bytes, pos[x] + 1, pos[x + 1]))])
\* valsize: the encoder's fixed size (0.5.10 stored bare leaf bytes)
Load0510(body, valsize) ==
  LET p   == ParseSlimMsg(body)
      ipb == IF p.ip.position.nwords >= 0 /\ Len(p.ip.bytes) > 0 THEN ConvertPrefixes(p.ip.position, p.ip.bytes) ELSE p.ip.bytes
      lv  == IF ~p.leaves.present \/ p.leaves.presence.nwords >= 0 THEN p.leaves
             ELSE LET n == Len(p.leaves.bytes) \div valsize IN
                  [present |-> TRUE, n |-> n, eltcnt |-> n, presence |-> BM(0..(n - 1), n, "r64"), fixed |-> valsize,
                   position |-> NilBM, bytes |-> p.leaves.bytes]
  IN [p EXCEPT !.ip.bytes = ipb, !.leaves = lv]
\* what a loaded 0.5.10 stream of c must be: Encode(c) with the word-granular select indexes
Loaded0510Form(m) ==
  [m EXCEPT !.ip.position = WordSel(@), !.lp = IF @.present THEN [@ EXCEPT !.position = WordSel(@)] ELSE @]
=============================================================================
