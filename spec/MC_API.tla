------------------------------- MODULE MC_API -------------------------------
(***************************************************************************)
(* B1 + B3 for histories (C05, C07, C20): all histories of Unmarshal (full, *)
(* cut, wrong version), Reset and buffer scribbles on ONE instance over a   *)
(* small pool of abstract streams, with Unmarshal taking its real steps.    *)
(*                                                                          *)
(* Invariants: after a finished call the instance answers exactly as the    *)
(* content of the last successful load (no residue), a failed load leaves   *)
(* it empty, and the derived table is stale only after a failure.           *)
(* The history variable `hist` is printed (JSON) for every state with       *)
(* pc[1] = "idle": these behaviours are replayed into the real code (B3).      *)
(***************************************************************************)
EXTENDS SlimHist, Json

CONSTANTS MaxHist, NPool

VARIABLE hist

PoolDef ==
  LET mk(keys, o4, n) == [ver |-> <<48, 46, 53, 46, 49, 50>>, secs |-> <<n>>,
                          content |-> Content(keys, [i \in 1..Len(keys) |-> <<i>>], TRUE, o4, TRUE)]
  IN << mk(<<>>, <<2, 2, 2, 2>>, 0),
        mk(<< <<97>> >>, <<2, 2, 2, 2>>, 5),
        mk(<< <<97>>, <<97, 98>>, <<98>> >>, <<2, 2, 2, 2>>, 9),
        mk(<< <<97>>, <<97, 99>>, <<99>> >>, <<1, 0, 0, 1>>, 12),
        mk(<< <<0>>, <<0, 255>>, <<16>>, <<255>> >>, <<0, 1, 0, 0>>, 20) >>

V0512 == <<48, 46, 53, 46, 49, 50>>
V0513 == <<48, 46, 53, 46, 49, 51>>
VPre  == <<48, 46, 53, 46, 49, 50, 45, 114, 99>>     \* 0.5.12-rc
VBad  == <<97, 98, 99>>

\* the abstract operation kinds; concrete cut points and version strings are
\* chosen by the harness when it replays a history
Ops ==
  {<<"unm", s>> : s \in 1..NPool}
  \cup {<<"cut-header", s>> : s \in 1..NPool}       \* cut inside the header
  \cup {<<"cut-body", s>> : s \in 2..NPool}         \* cut inside the body
  \cup {<<"newer", s>> : s \in 1..NPool}            \* 0.5.13
  \cup {<<"prerelease", s>> : s \in 1..NPool} \cup {<<"malformed", s>> : s \in 1..NPool}
  \cup {<<"reset", 0>>, <<"scribble", 0>>}

vars == <<inst, iters, pool, pc, last, hist>>

Init ==
  /\ inst = EmptyC /\ iters = NoIters
  /\ pool = [s \in 1..NPool |-> PoolDef[s]]
  /\ pc = Idle /\ last = "" /\ hist = <<>>

Call(op) ==
  /\ pc[1] = "idle" /\ Len(hist) < MaxHist
  /\ hist' = Append(hist, op)
  /\ UNCHANGED iters
  /\ CASE op[1] = "unm"        -> UnmBegin(op[2], V0512, StreamLen(pool[op[2]]))
       [] op[1] = "cut-header" -> UnmBegin(op[2], V0512, 16)
       [] op[1] = "cut-body"   -> UnmBegin(op[2], V0512, HeaderLen + pool[op[2]].secs[1] - 1)
       [] op[1] = "newer"      -> UnmBegin(op[2], V0513, StreamLen(pool[op[2]]))
       [] op[1] = "prerelease" -> UnmBegin(op[2], VPre, StreamLen(pool[op[2]]))
       [] op[1] = "malformed"  -> UnmBegin(op[2], VBad, StreamLen(pool[op[2]]))
       [] op[1] = "reset"      -> ResetInst
       [] op[1] = "scribble"   -> ReadOnly

UnmStep == (UnmHeader \/ UnmBody \/ UnmCommit) /\ UNCHANGED <<iters, hist>>

Next == (\E op \in Ops : Call(op)) \/ UnmStep

\* what the history says the instance must hold: the last successful load since
\* the last reset / failed load
RECURSIVE Expect(_)
Expect(h) ==
  IF Len(h) = 0 THEN 0
  ELSE LET op == h[Len(h)] IN
       IF op[1] = "unm" THEN op[2]
       ELSE IF op[1] = "scribble" THEN Expect(SubSeq(h, 1, Len(h) - 1))
       ELSE 0

Inv ==
  pc[1] = "idle" =>
    LET want == Expect(hist) IN
    /\ inst.src = want
    \* no residue: the content is exactly the stream's, or nothing
    /\ IF want = 0 THEN IsEmptyInst ELSE inst.ks = pool[want].content.ks /\ inst.nodes = pool[want].content.nodes
    \* failures are errors of the right kind, never half-loaded
    /\ (Len(hist) > 0 /\ hist[Len(hist)][1] \in {"cut-header", "cut-body"}) => last = "other"
    /\ (Len(hist) > 0 /\ hist[Len(hist)][1] \in {"newer", "prerelease", "malformed"}) => last = "incompatible"
    /\ (Len(hist) > 0 /\ hist[Len(hist)][1] = "unm") => last = ""
    \* the derived table matches the content except after a failed load (stale)
    /\ (last = "" \/ (Len(hist) > 0 /\ hist[Len(hist)][1] = "reset")) => inst.lv = ModelLevels(inst.nodes)

\* every lookup on an empty instance misses; checked on the Model
InvEmpty ==
  (pc[1] = "idle" /\ IsEmptyInst) =>
     \A q \in {<<>>, <<97>>, <<97, 98>>, <<0>>} :
        GetIDm(inst.ks, inst.nodes, inst.o, q) = -1 /\ SearchIDm(inst.ks, inst.nodes, inst.o, q) = <<-1, -1, -1>>

\* behaviours for B3: print every complete history once (states at full depth)
Emit == (pc[1] = "idle" /\ Len(hist) = MaxHist) => PrintT(<<"HIST", ToJson(hist)>>)
=============================================================================
