----------------------------- MODULE MC_Readers -----------------------------
(***************************************************************************)
(* B1 + B3 for concurrent readers (C11).  Reader processes share one built *)
(* instance; each performs one call as a sequence of node visits (the      *)
(* getNode calls of the code).  All session state is LOCAL to the reader   *)
(* (pos in its own visit plan); the shared instance is never written.      *)
(*                                                                         *)
(*   - action property: no step of any reader changes the shared state;    *)
(*   - invariant: whatever the interleaving, a reader that has finished    *)
(*     holds the result of the same call run alone;                        *)
(*   - every complete interleaving (schedule) is printed and replayed into *)
(*     the real library through the gate hook (B3).                        *)
(***************************************************************************)
EXTENDS SlimHist, Json

CONSTANTS NReaders

VARIABLES rd, sched

\* the shared instance of the design check: keys with a step, a key that is a
\* prefix of another, a de-duplicated key
Keys == << <<97>>, <<97, 98, 99>>, <<97, 98, 100>>, <<98>>, <<98, 255, 0, 1>> >>
Vals == << <<1>>, <<2>>, <<2>>, <<3>>, <<4>> >>
Shared == Content(Keys, Vals, TRUE, <<1, 0, 0, 0>>, TRUE)

\* the calls of the readers (reader r performs Calls[r]): <<api, query>>
Calls == << <<"GetID", <<97, 98, 100>>>>, <<"Search", <<97, 98, 99, 0>>>>, <<"GetID", <<98, 255, 0, 1>>>> >>

Plan(c, call) ==
  IF call[1] = "GetID" THEN GetIDVisits(c.ks, c.nodes, c.o, call[2])
  ELSE SearchVisits(c.ks, c.nodes, c.o, call[2])
Result(c, call) ==
  IF call[1] = "GetID" THEN <<ModelGetID(c.ks, c.nodes, c.o, call[2])>>
  ELSE ModelSearch(c.ks, c.nodes, c.o, c.vals, c.hasvals, call[2])

vars == <<inst, iters, pool, pc, last, rd, sched>>

Init ==
  /\ inst = Shared /\ iters = NoIters /\ pool = <<>> /\ pc = Idle /\ last = ""
  /\ rd = [r \in 1..NReaders |-> [pos |-> 0, visited |-> <<>>, result |-> <<>>]]
  /\ sched = <<>>

\* one node visit of reader r: reads inst, writes only rd[r]
RVisit(r) ==
  LET plan == Plan(inst, Calls[r]) IN
  /\ rd[r].pos < Len(plan)
  /\ rd' = [rd EXCEPT ![r].pos = @ + 1,
                      ![r].visited = Append(@, plan[rd[r].pos + 1]),
                      ![r].result = IF rd[r].pos + 1 = Len(plan) THEN Result(inst, Calls[r]) ELSE @]
  /\ sched' = Append(sched, r)
  /\ UNCHANGED <<inst, iters, pool, pc, last>>

Next == \E r \in 1..NReaders : RVisit(r)

Done(r) == rd[r].pos = Len(Plan(Shared, Calls[r]))

\* reads never write the shared structure
ReadsDoNotWrite == [][inst' = inst]_vars

Inv ==
  /\ inst = Shared
  /\ \A r \in 1..NReaders :
       /\ rd[r].visited = SubSeq(Plan(Shared, Calls[r]), 1, rd[r].pos)
       /\ Done(r) => rd[r].result = Result(Shared, Calls[r])

Emit == (\A r \in 1..NReaders : Done(r)) => PrintT(<<"SCHED", ToJson(sched)>>)
=============================================================================
