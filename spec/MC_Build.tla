------------------------------ MODULE MC_Build ------------------------------
(***************************************************************************)
(* B1 design check of construction (C08): key SEQUENCES in any order.      *)
(* The step counter is narrowed (StepBits = 3: at most 7 half-bytes) so    *)
(* that 2-3 key worlds contain single-branch runs that do not fit.         *)
(*                                                                         *)
(*   - a sequence that is not strictly ascending is rejected ("order");    *)
(*   - an ascending one is accepted unless a step cannot be encoded        *)
(*     ("toolong", only without InnerPrefix);                              *)
(*   - every ACCEPTED input finds all its retained keys (all-or-nothing);  *)
(*   - the ASSUME shows the refusal is needed: accepting such an input     *)
(*     loses a key -- which is what the unrepaired code did with 65536     *)
(*     half-bytes (finding F3).                                            *)
(***************************************************************************)
EXTENDS SlimRender

CONSTANTS Alphabet, MaxLen, MaxKeys

VARIABLES keys, vals, dd, hasvals

Strings == StringsUpTo(Alphabet, MaxLen)

Init == keys = <<>> /\ vals = <<>> /\ dd \in BOOLEAN /\ hasvals \in BOOLEAN

\* any string may follow: the order check is the object of study
Next ==
  /\ Len(keys) < MaxKeys
  /\ \E k \in Strings :
       /\ keys' = Append(keys, k)
       /\ \E same \in (IF dd /\ hasvals /\ Len(keys) > 0 THEN BOOLEAN ELSE {FALSE}) :
            vals' = Append(vals, IF same THEN vals[Len(vals)] ELSE <<Len(vals) + 1>>)
  /\ UNCHANGED <<dd, hasvals>>

Modes == {[innp |-> a, leafp |-> b] : a \in BOOLEAN, b \in BOOLEAN}

Outcome(o, nodes) ==
  IF ~StrictAsc(keys) THEN "order" ELSE IF ~o.innp /\ ~StepsFit(nodes) THEN "toolong" ELSE ""

Inv ==
  IF ~StrictAsc(keys)
  THEN FirstDisorder(keys) \in 1..(Len(keys) - 1)          \* a witness exists: rejected
  ELSE
    LET nodes == TLCEval(BuildNodes(keys, vals, hasvals, dd, TRUE))
        R == RetainedIdx(Len(keys), vals, hasvals, dd) IN
    /\ FirstDisorder(keys) = 0
    /\ \A o \in Modes :
         Outcome(o, nodes) = "" =>
           /\ \A p \in 1..Len(R) :
                ModelGet(keys, nodes, o, vals, hasvals, keys[R[p]]) = <<1, ValAt(vals, hasvals, R[p])>>
           /\ \A i \in 1..Len(keys) :
                ModelRangeGet(keys, nodes, o, vals, hasvals, keys[i]) = <<1, ValAt(vals, hasvals, i)>>
    \* with stored prefixes nothing is ever refused
    /\ \A o \in Modes : o.innp => Outcome(o, nodes) = ""

\* the spec predicts F3: a run that does not fit, if accepted, loses a key
ASSUME
  LET ks == << <<0, 0, 0, 0, 1>>, <<0, 0, 0, 0, 2>> >>
      nodes == BuildNodes(ks, <<>>, FALSE, TRUE, TRUE)
  IN StepBits = 3 =>
       /\ ~StepsFit(nodes)
       /\ ModelGet(ks, nodes, [innp |-> FALSE, leafp |-> FALSE], <<>>, FALSE, ks[1])[1] = 0
=============================================================================
