CONSTANT N = 12
INIT Init
NEXT Next
INVARIANT Inv
