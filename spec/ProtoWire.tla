------------------------------ MODULE ProtoWire ------------------------------
(***************************************************************************)
(* The proto3 wire format as far as the library uses it (golang/protobuf   *)
(* table marshaller): varints, tags, length-delimited fields, packed       *)
(* repeated scalars; zero scalars and empty repeated fields are omitted.   *)
(* A 64-bit number does not fit a TLC integer, so it travels as the set of *)
(* its one-positions and its varint is computed 7 bits at a time.          *)
(* Writer and parser.  Shared by SlimWire (the trie's stream) and SlimArray *)
(* (the compacted arrays' message).                                        *)
(***************************************************************************)
EXTENDS Integers, Sequences, FiniteSets, SequencesExt, FiniteSetsExt

RECURSIVE PWPow2(_)
PWPow2(n) == IF n = 0 THEN 1 ELSE 2 * PWPow2(n - 1)

\* ---- varints -------------------------------------------------------------------
RECURSIVE VarintN(_)
VarintN(n) == IF n < 128 THEN <<n>> ELSE <<128 + (n % 128)>> \o VarintN(n \div 128)

\* S: the one-positions (0..63) of an unsigned 64-bit number
VarintBits(S) ==
  LET last == IF S = {} THEN 0 ELSE Max(S) \div 7
      grp(g) == FoldSet(LAMBDA b, acc : acc + PWPow2(b - 7 * g), 0, {b \in S : b \div 7 = g})
  IN [x \in 1..(last + 1) |-> grp(x - 1) + (IF x - 1 < last THEN 128 ELSE 0)]

LE64(n) == <<n % 256, (n \div 256) % 256, (n \div 65536) % 256, (n \div 16777216) % 256, 0, 0, 0, 0>>

\* ---- proto3 fields -------------------------------------------------------------
Tag(f, wt)   == VarintN(8 * f + wt)
LD(f, bs)    == Tag(f, 2) \o VarintN(Len(bs)) \o bs            \* length-delimited, always written
OptInt(f, n) == IF n = 0 THEN <<>> ELSE Tag(f, 0) \o VarintN(n)
OptBytes(f, bs) == IF Len(bs) = 0 THEN <<>> ELSE LD(f, bs)
PackedN(f, s) == IF Len(s) = 0 THEN <<>> ELSE LD(f, FlattenSeq([i \in 1..Len(s) |-> VarintN(s[i])]))
PackedW(f, ws) == IF Len(ws) = 0 THEN <<>> ELSE LD(f, FlattenSeq([i \in 1..Len(ws) |-> VarintBits(ws[i])]))

\* ---- the reader's side ------------------------------------------------------------
\* a varint at position p (1-based): <<one-positions of the value, next position>>;
\* next position 0 = the bytes end inside the varint
RECURSIVE RdVar(_, _, _, _)
RdVar(bs, p, shift, acc) ==
  IF p > Len(bs) THEN <<{}, 0>>
  ELSE LET b    == bs[p]
           acc2 == acc \cup {shift + k : k \in {j \in 0..6 : (b \div PWPow2(j)) % 2 = 1}}
       IN IF b >= 128 THEN RdVar(bs, p + 1, shift + 7, acc2) ELSE <<acc2, p + 1>>
NumOf(S) == FoldSet(LAMBDA b, a : a + PWPow2(b), 0, S)          \* for values below 2^31
\* -1 for a value that does not fit a TLC integer (64-bit fields the reader ignores)
NumOfSafe(S) == IF S # {} /\ Max(S) >= 31 THEN -1 ELSE NumOf(S)

BadField == [f |-> -1, wt |-> -1, n |-> 0, bytes |-> <<>>]
\* the fields of a message, in stream order: [f, wt, n (varint value), bytes (payload)]
RECURSIVE Fields(_, _)
Fields(bs, p) ==
  IF p > Len(bs) THEN <<>>
  ELSE LET t == RdVar(bs, p, 0, {}) IN
       IF t[2] = 0 THEN <<BadField>>
       ELSE LET tag == NumOf(t[1])  f == tag \div 8  wt == tag % 8
                v   == RdVar(bs, t[2], 0, {}) IN
            IF v[2] = 0 \/ wt \notin {0, 2} THEN <<BadField>>
            ELSE IF wt = 0 THEN <<[f |-> f, wt |-> 0, n |-> NumOfSafe(v[1]), bytes |-> <<>>]>> \o Fields(bs, v[2])
            ELSE LET n == NumOfSafe(v[1]) IN
                 IF n < 0 \/ v[2] + n - 1 > Len(bs) THEN <<BadField>>
                 ELSE <<[f |-> f, wt |-> 2, n |-> n, bytes |-> SubSeq(bs, v[2], v[2] + n - 1)]>> \o Fields(bs, v[2] + n)

WellFormed(fs) == \A i \in 1..Len(fs) : fs[i].f # -1
HasF(fs, f)  == \E i \in 1..Len(fs) : fs[i].f = f
FieldOf(fs, f) == fs[CHOOSE i \in 1..Len(fs) : fs[i].f = f]
IntF(fs, f)  == IF HasF(fs, f) THEN FieldOf(fs, f).n ELSE 0
BytesF(fs, f) == IF HasF(fs, f) THEN FieldOf(fs, f).bytes ELSE <<>>

\* packed varints, each as the set of its one-positions
RECURSIVE Unpack(_, _)
Unpack(bs, p) == IF p > Len(bs) THEN <<>> ELSE LET v == RdVar(bs, p, 0, {}) IN <<v[1]>> \o Unpack(bs, v[2])
UnpackN(bs) == LET u == Unpack(bs, 1) IN [i \in 1..Len(u) |-> NumOf(u[i])]

=============================================================================
