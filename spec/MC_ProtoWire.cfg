CONSTANTS
  MaxN = 20000
  Positions = {0, 6, 7, 13, 14, 20, 21, 30, 31, 55, 56, 62, 63}
INIT Init
NEXT Next
INVARIANTS VarintRoundTrip MessageRoundTrip
CHECK_DEADLOCK FALSE
