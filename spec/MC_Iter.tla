------------------------------- MODULE MC_Iter -------------------------------
(***************************************************************************)
(* Iterators as processes (C04, C11): two independent iterators over one   *)
(* shared complete trie, each advanced by its own next() calls in any      *)
(* interleaving, with lookups (read-only steps) in between.                *)
(*                                                                         *)
(* Safety: what an iterator has yielded so far is a prefix of Ref's scan   *)
(* from its start -- whatever the other iterator does (no interference);   *)
(* the shared instance never changes.                                      *)
(* Liveness (under weak fairness of each iterator's next()): every         *)
(* iterator is eventually exhausted, i.e. every retained key in range is   *)
(* eventually yielded; once exhausted it stays exhausted.                  *)
(***************************************************************************)
EXTENDS SlimHist, Json

VARIABLES yielded, sched

Keys == << <<>>, <<97>>, <<97, 98>>, <<98>>, <<98, 255>>, <<99>>, <<255, 0>> >>
Vals == << <<1>>, <<2>>, <<2>>, <<3>>, <<4>>, <<4>>, <<5>> >>
Shared == Content(Keys, Vals, TRUE, <<0, 0, 0, 1>>, TRUE)
Starts == << <<97>>, <<>> >>
Incl == <<FALSE, TRUE>>

vars == <<inst, iters, pool, pc, last, yielded, sched>>

Init ==
  /\ inst = Shared /\ pool = <<>> /\ pc = Idle /\ last = ""
  /\ iters = [id \in 1..2 |-> [rest |-> RefScanPos(Keys, Shared.R, Starts[id], Incl[id], FALSE, <<>>, FALSE), wv |-> TRUE]]
  /\ yielded = [id \in 1..2 |-> <<>>]
  /\ sched = <<>>

Advance(id) ==
  /\ iters[id].rest # <<>>
  /\ yielded' = [yielded EXCEPT ![id] = Append(@, IterYield(id)[1])]
  /\ IterNext(id)
  /\ sched' = Append(sched, id)
  /\ UNCHANGED <<inst, pool, pc, last>>

\* next() on an exhausted iterator: nil, and it stays exhausted
Exhausted(id) ==
  /\ iters[id].rest = <<>>
  /\ IterYield(id) = <<NilV, NilV>>
  /\ UNCHANGED vars

Lookup == UNCHANGED vars      \* any read of the shared trie

Next == (\E id \in 1..2 : Advance(id) \/ Exhausted(id)) \/ Lookup

Spec == Init /\ [][Next]_vars /\ WF_vars(Advance(1)) /\ WF_vars(Advance(2))

Want(id) == LET ps == RefScanPos(Keys, Shared.R, Starts[id], Incl[id], FALSE, <<>>, FALSE)
            IN [x \in 1..Len(ps) |-> Keys[Shared.R[ps[x]]]]

NoInterference ==
  /\ inst = Shared
  /\ \A id \in 1..2 : yielded[id] = SubSeq(Want(id), 1, Len(yielded[id]))

\* every complete interleaving of the two iterators' next() calls is printed and replayed
\* on real iterators (B3): the harness advances real iterator `id` for each entry
Emit == (\A id \in 1..2 : iters[id].rest = <<>>) => PrintT(<<"SCHED", ToJson(sched)>>)

EventuallyAll == \A id \in 1..2 : <>[](yielded[id] = Want(id) /\ iters[id].rest = <<>>)
=============================================================================
