CONSTANTS
  BigMin = 2
  ShortCost = 64
  MaxShort = 10
  StepBits = 16
  Alphabet = {0, 1, 16, 128, 255}
  MaxLen = 2
  MaxKeys = 4
INIT Init
NEXT Next
INVARIANTS Inv Wire
CHECK_DEADLOCK FALSE
