CONSTANTS
  Design = "copy"
  Streams = {1, 2}
  MaxBuf = 6
SPECIFICATION Spec
INVARIANTS NoAlias ResultsStayIntact
PROPERTIES ScribbleInvisible MarshalReadsOnly
CHECK_DEADLOCK FALSE
