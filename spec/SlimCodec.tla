------------------------------ MODULE SlimCodec ------------------------------
(***************************************************************************)
(* The on-disk value formats (encode/*.go) as a normative definition.      *)
(*                                                                         *)
(* TLC integers are 32-bit, so numbers travel as base-256 digit sequences: *)
(* a value is [neg, mag] with mag its magnitude, little-endian digits,     *)
(* padded to the width of the type.                                        *)
(*                                                                         *)
(*   integers   fixed width w, little-endian two's complement              *)
(*   String16   big-endian 16-bit length, then the bytes                   *)
(*   Bytes{n}   the n bytes themselves                                     *)
(*   struct     the fields one after the other in the configured byte order*)
(***************************************************************************)
EXTENDS Integers, Sequences, FiniteSets, TLC, SequencesExt

Invert(d) == [i \in 1..Len(d) |-> 255 - d[i]]

\* d + 1 on little-endian digits, overflow dropped
RECURSIVE AddOneFrom(_, _)
AddOneFrom(d, i) ==
  IF i > Len(d) THEN d
  ELSE IF d[i] < 255 THEN [d EXCEPT ![i] = @ + 1]
  ELSE AddOneFrom([d EXCEPT ![i] = 0], i + 1)
AddOne(d) == AddOneFrom(d, 1)

IsZero(d) == \A i \in 1..Len(d) : d[i] = 0

\* two's complement, little-endian, of the value (neg, mag) in Len(mag) bytes
TwoC(neg, mag) == IF neg /\ ~IsZero(mag) THEN AddOne(Invert(mag)) ELSE mag

\* the value a w-byte little-endian two's complement pattern stands for
FromTwoC(signed, bytes) ==
  IF signed /\ bytes[Len(bytes)] >= 128
  THEN [neg |-> TRUE, mag |-> AddOne(Invert(bytes))]
  ELSE [neg |-> FALSE, mag |-> bytes]


\* representable in w bytes?
InRange(signed, neg, mag) ==
  IF ~signed THEN ~neg \/ IsZero(mag)
  ELSE IF neg THEN mag[Len(mag)] < 128 \/ (mag[Len(mag)] = 128 /\ \A i \in 1..(Len(mag) - 1) : mag[i] = 0)
  ELSE mag[Len(mag)] < 128

EncInt(neg, mag, bigEndian) == IF bigEndian THEN Reverse(TwoC(neg, mag)) ELSE TwoC(neg, mag)

EncString16(s) == <<Len(s) \div 256, Len(s) % 256>> \o s

\* struct: fields = sequence of [neg, mag] (each padded to its own width)
RECURSIVE EncFields(_, _)
EncFields(fs, bigEndian) ==
  IF Len(fs) = 0 THEN <<>> ELSE EncInt(fs[1].neg, fs[1].mag, bigEndian) \o EncFields(Tail(fs), bigEndian)
=============================================================================
