CONSTANTS
  BigMin = 10
  ShortCost = 64
  MaxShort = 10
  StepBits = 16
  MaxHist = 3
  NPool = 5
INIT Init
NEXT Next
INVARIANTS Inv InvEmpty Emit
CHECK_DEADLOCK FALSE
