------------------------------ MODULE Trace_API ------------------------------
(***************************************************************************)
(* Trace validation of histories on one instance (C05 C07 C20): every line  *)
(* is one call; Unmarshal is the composition of its steps (UnmWhole).       *)
(* After every call a battery of observations is logged twice: on the       *)
(* history instance (`own`) and on a fresh instance that was given only the *)
(* stream last loaded successfully (`fresh`).                               *)
(***************************************************************************)
EXTENDS SlimHist, Json

CONSTANTS TraceFile, LayerM

VARIABLES l, lastbat, scribbled

Trace == ndJsonDeserialize(TraceFile)

TInit ==
  /\ l = 1 /\ inst = NoInst /\ iters = NoIters /\ pool = <<>> /\ pc = Idle /\ last = ""
  /\ lastbat = <<>> /\ scribbled = FALSE

Ev(name) == l <= Len(Trace) /\ Trace[l].ev = name /\ l' = l + 1

TCase ==
  /\ Ev("case")
  \* the pool (stream definitions) persists for the whole trace file
  /\ inst' = NoInst /\ pc' = Idle /\ last' = "" /\ lastbat' = <<>> /\ scribbled' = FALSE /\ UNCHANGED pool

TPool ==
  /\ Ev("pool")
  /\ LET e == Trace[l] IN
     DefStream(e.sid, [ver |-> e.ver, secs |-> e.secs, len |-> e.len, layout |-> e.layout,
                       \* what the stream encodes: a three-section stream holds the conversion
                       \* of the old trie = the current table with the 257-bit latch clear, every
                       \* key, steps only (SlimLegacy, MC_Legacy)
                       content |-> IF e.v3 = 1 THEN Content(e.keys, e.vals, e.hasvals, <<0, 0, 0, 0>>, FALSE)
                                   ELSE Content(e.keys, e.vals, e.hasvals, e.opt, TRUE)])
  /\ UNCHANGED <<inst, pc, last, lastbat, scribbled>>

TInst ==
  /\ Ev("inst") /\ inst' = EmptyC
  /\ UNCHANGED <<pool, pc, last, lastbat, scribbled>>

\* the property's demands on the outcome of a load (Layer P):
\*   a strict prefix of a valid stream is an error, never a panic (C07);
\*   a version outside the compatible set is the incompatibility error (C07);
\*   a complete stream of a listed version loads (C05/C06)
UnmBad(e) ==
  LET full == e.cut = -1
      dem  == VersionDemandCur(e.ver, e.cur) IN
  (IF e.pan # "" THEN {"panic"} ELSE {})
  \cup (IF e.pan = "" /\ ~full /\ e.err = "" THEN {"cut-accepted"} ELSE {})
  \cup (IF e.pan = "" /\ full /\ dem = "mustnot" /\ e.err # "incompatible"
        THEN {"incompatible-not-rejected"} ELSE {})
  \cup (IF e.pan = "" /\ full /\ dem = "must" /\ e.err # "" THEN {"valid-rejected"} ELSE {})
  \cup (IF e.bufmodified # 0 THEN {"input-buffer-modified"} ELSE {})

TUnm ==
  /\ Ev("unm")
  /\ LET e == Trace[l]
         cut == IF e.cut = -1 THEN e.total ELSE e.cut
         w == UnmWhole(e.sid, e.ver, cut)
         bad == UnmBad(e) IN
     /\ inst.live
     /\ Report(l, "P:C07:unmarshal", bad \ {"valid-rejected", "input-buffer-modified"})
     /\ Report(l, "P:C05:load", bad \cap {"valid-rejected"})
     /\ Report(l, "P:C20:input", bad \cap {"input-buffer-modified"})
     /\ LayerM => Report(l, "M:outcome", IF w[1] # e.err THEN {1} ELSE {})
     \* the multi-step action: which critical sections the call passed (hook log)
     /\ LayerM => Report(l, "M:stages",
                         IF e.stages # <<"skip">> /\ e.stages # <<"nohooks">> /\ e.stages # UnmStages(e.sid, e.ver, cut)
                         THEN {Len(e.stages)} ELSE {})
     \* the state follows the implementation where it returned success on a full
     \* stream, and is empty otherwise
     \* (proto.Unmarshal(buf, st) is Reset followed by Unmarshal: no stale derived table)
     /\ inst' = IF e.err = "" /\ e.pan = "" /\ e.cut = -1 THEN Loaded(e.sid)
                ELSE IF e.viaproto = 1 THEN EmptyC ELSE Ext(EmptyC, inst.lv, 0)
     /\ last' = e.err
  /\ UNCHANGED <<pool, pc>> /\ lastbat' = <<>> /\ scribbled' = FALSE

TReset ==
  /\ Ev("reset")
  /\ Report(l, "P:C05:reset", IF Trace[l].pan # "" THEN {1} ELSE {})
  /\ inst' = EmptyC /\ last' = ""
  /\ UNCHANGED <<pool, pc>> /\ lastbat' = <<>> /\ scribbled' = FALSE

TMarshal ==
  /\ Ev("marshal")
  /\ LET e == Trace[l] IN
     /\ Report(l, "P:C05:marshal",
               (IF e.pan # "" THEN {"panic"} ELSE {})
               \cup (IF e.pan = "" /\ e.mlen # e.psize THEN {"size"} ELSE {})
               \cup (IF e.pan = "" /\ e.mhash # e.pmhash THEN {"proto.Marshal-differs"} ELSE {})
               \* re-marshalling a loaded trie reproduces the bytes it was loaded from
               \cup (IF e.pan = "" /\ inst.src # 0 /\ e.srclen # -1 /\ pool[inst.src].layout = "cur"
                        /\ (e.mlen # e.srclen \/ e.mhash # e.srchash)
                     THEN {"remarshal-differs"} ELSE {}))
  /\ UNCHANGED <<inst, pool, pc, last, lastbat, scribbled>>

TScribble ==
  /\ Ev("scribble")
  /\ scribbled' = TRUE
  /\ UNCHANGED <<inst, pool, pc, last, lastbat>>

EmptyAnswers(b, n) ==
  /\ \A j \in 1..n : b.ids[j] = -1 /\ b.gets[j] = <<0, NilV>> /\ b.rgets[j] = <<0, NilV>>
                     /\ b.srch[j] = <<NilV, NilV, NilV>>
  /\ b.scancnt = 0 /\ b.scanpan = 0

BatView(b) == <<b.ids, b.gets, b.rgets, b.srch, b.pans, b.levels, b.keycnt, b.nodecnt, b.text, b.scan, b.scancnt, b.mhash, b.mlen>>

TBat ==
  /\ Ev("bat")
  /\ LET e == Trace[l]
         n == Len(e.qs)
         c == inst IN
     /\ inst.live
     \* no residue: the history instance and the fresh one are indistinguishable
     /\ Report(l, "P:C05:residue",
               IF BatView(e.own) # BatView(e.fresh) /\ last = "" THEN {1} ELSE {})
     \* after a rejected load: an empty trie, not a mixture (Stat's derived numbers
     \* are not part of the statement: they are stale in the code, see SlimHist)
     /\ Report(l, "P:C07:halfloaded",
               IF last # "" /\ ~EmptyAnswers(e.own, n) THEN {1} ELSE {})
     /\ Report(l, "P:C10:panic", C10panic(e.own))
     \* overwriting caller-owned buffers changes nothing (C20)
     /\ Report(l, "P:C20:alias", IF scribbled /\ lastbat # <<>> /\ BatView(e.own) # lastbat THEN {1} ELSE {})
     \* reads never change what is observed
     /\ Report(l, "P:C05:unstable", IF ~scribbled /\ lastbat # <<>> /\ BatView(e.own) # lastbat THEN {1} ELSE {})
     /\ LayerM => Report(l, "M:answers", MAnswers(c, e.own, e.qs))
     /\ LayerM => Report(l, "M:levels", IF e.own.statpan = "" /\ e.own.levels # c.lv THEN {1} ELSE {})
     /\ lastbat' = BatView(e.own)
  /\ scribbled' = FALSE
  /\ UNCHANGED <<inst, pool, pc, last>>

\* building neither modifies the caller's key slice, value slice nor option struct
\* (nor the booleans its pointers point to)
TNewMem ==
  /\ Ev("newmem")
  /\ LET e == Trace[l] IN
     Report(l, "P:C20:build-args",
            (IF e.pan # "" THEN {"panic"} ELSE {})
            \cup (IF e.keys # 1 THEN {"keys-modified"} ELSE {})
            \cup (IF e.vals # 1 THEN {"values-modified"} ELSE {})
            \cup (IF e.optptrs # 1 THEN {"option-pointers-modified"} ELSE {})
            \cup (IF e.optvals # 1 THEN {"option-values-modified"} ELSE {}))
  /\ UNCHANGED <<inst, pool, pc, last, lastbat, scribbled>>

TNext == UNCHANGED iters /\ (TNewMem \/ TCase \/ TPool \/ TInst \/ TUnm \/ TReset \/ TMarshal \/ TScribble \/ TBat)

Accepted == TLCGet("stats").diameter - 1 = Len(Trace)
=============================================================================
