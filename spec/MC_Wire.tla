------------------------------- MODULE MC_Wire -------------------------------
(***************************************************************************)
(* B1 for the byte stream (Level C).  In every small world and every       *)
(* prefix mode, with Stream == header + proto3 body of the stored form:    *)
(*                                                                         *)
(*  RoundTrip   reading the stream back (ReadSection, ParseSlimMsg) gives  *)
(*              exactly the stored form that was written: serialization    *)
(*              loses nothing and adds nothing (C05), and the header       *)
(*              announces the version and the body length that the staged  *)
(*              loader of SlimHist checks (C07)                            *)
(*  CutRefused  every proper prefix of the stream is refused by the length *)
(*              test ALONE -- needed because a protobuf body cut on a      *)
(*              field boundary is itself a well-formed message             *)
(*  FilterSize  in filter mode (no values, no prefixes) the stream is at   *)
(*              most 8n + 256 bytes and prepending a common prefix to all  *)
(*              keys changes its length by at most 8 bytes (C17), byte for *)
(*              byte rather than by the arithmetic bound of Trace_Misc     *)
(***************************************************************************)
EXTENDS SlimWireOld

CONSTANTS Alphabet, MaxLen, MaxKeys

VARIABLES keys, vals, dd, hasvals

Strings == StringsUpTo(Alphabet, MaxLen)
Init == keys = <<>> /\ vals = <<>> /\ dd \in BOOLEAN /\ hasvals \in BOOLEAN
Next ==
  /\ Len(keys) < MaxKeys
  /\ \E k \in Strings :
       /\ (IF Len(keys) = 0 THEN TRUE ELSE Lt(keys[Len(keys)], k))
       /\ keys' = Append(keys, k)
       /\ \E v \in (IF dd /\ hasvals THEN {<<1>>, <<2, 2>>} ELSE {<<Len(vals) + 1>>}) :
            vals' = Append(vals, v)
  /\ UNCHANGED <<dd, hasvals>>

Modes == {[innp |-> a, leafp |-> b] : a \in BOOLEAN, b \in BOOLEAN}
Filter == [innp |-> FALSE, leafp |-> FALSE]
PrependedPs == { <<7>>, <<0, 255, 16>> }

Content(ks, o) ==
  [ks |-> ks, vals |-> vals, hasvals |-> hasvals, o |-> o, nodes |-> BuildNodes(ks, vals, hasvals, dd, TRUE)]

Abs(x) == IF x < 0 THEN -x ELSE x

RoundTrip ==
  Len(keys) > 0 =>
    \A o \in Modes :
      LET m  == TLCEval(Encode(Content(keys, o)))
          bs == TLCEval(Stream(m))
          rd == ReadSection(bs) IN
      /\ HeaderVersion(bs) = CurrentVersionChars /\ Compatible(HeaderVersion(bs))
      /\ rd.err = "" /\ WellFormed(Fields(rd.body, 1))
      /\ ParseSlimMsg(rd.body) = m

CutRefused ==
  Len(keys) > 0 =>
    LET bs == TLCEval(Stream(Encode(Content(keys, [innp |-> TRUE, leafp |-> TRUE])))) IN
    \A cut \in 0..(Len(bs) - 1) : ReadSection(SubSeq(bs, 1, cut)).err = "short"

FilterSize ==
  (Len(keys) > 0 /\ ~hasvals) =>
    LET n0 == Len(Stream(Encode(Content(keys, Filter)))) IN
    /\ n0 <= 8 * Len(keys) + 256
    /\ \A P \in PrependedPs :
         Abs(Len(Stream(Encode(Content([i \in 1..Len(keys) |-> P \o keys[i]], Filter)))) - n0) <= 8

Old0510 ==
  (Len(keys) > 0 /\ ~(dd /\ hasvals)) =>
    \A o \in Modes : \A minor \in {10, 11} :
      LET c  == Content(keys, o)
          m  == TLCEval(Encode(c))
          bs == TLCEval(Old0510Stream(c, minor))
          rd == ReadSection(bs)
          ld == TLCEval(Load0510(rd.body, 1)) IN
      /\ rd.err = "" /\ Compatible(HeaderVersion(bs)) /\ OneSection(HeaderVersion(bs))
      /\ ld = Loaded0510Form(m)
      /\ \A q \in Strings : GetIDB(ld, q) = GetIDB(m, q) /\ SearchIDB(ld, q) = SearchIDB(m, q)
=============================================================================
