CONSTANTS
  BigMin = 10
  ShortCost = 64
  MaxShort = 10
  StepBits = 16
  LayerM = TRUE
  TraceFile = "trace.ndjson"
INIT TInit
NEXT TNext
POSTCONDITION Accepted
CHECK_DEADLOCK FALSE
