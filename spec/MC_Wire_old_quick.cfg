CONSTANTS
  BigMin = 2
  ShortCost = 2
  MaxShort = 10
  StepBits = 16
  Alphabet = {0, 16, 255}
  MaxLen = 2
  MaxKeys = 3
INIT Init
NEXT Next
INVARIANTS Old0510
CHECK_DEADLOCK FALSE
