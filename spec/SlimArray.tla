------------------------------ MODULE SlimArray ------------------------------
(***************************************************************************)
(* Compacted arrays (array/base.go, array/int.go): a presence bitmap in     *)
(* words of W bits, per-word offsets (number of elements before the word -- *)
(* ZERO for an empty word, a compatibility quirk), and the packed elements. *)
(*                                                                          *)
(* Ref: SparseMap -- (element, TRUE) at every listed index, (zero, FALSE)   *)
(* elsewhere.  Model: the rank arithmetic of the accessors.                 *)
(***************************************************************************)
EXTENDS Integers, Sequences, FiniteSets, TLC, SequencesExt, FiniteSetsExt, ProtoWire

CONSTANT W          \* bits per bitmap word (code: 64)

Ascending(idx) == \A i \in 1..(Len(idx) - 1) : idx[i] < idx[i+1]

\* outcome of New(index, elts): "" | "len" | "asc"; the length is checked first
InitOutcome(idx, nelts) ==
  IF Len(idx) # nelts THEN "len" ELSE IF ~Ascending(idx) THEN "asc" ELSE ""
\* what the property allows: each defect has its dedicated error; with both
\* defects either error
OutcomeOK(idx, nelts, err) ==
  LET lenbad == Len(idx) # nelts  ascbad == ~Ascending(idx) IN
  IF ~lenbad /\ ~ascbad THEN err = ""
  ELSE err \in ((IF lenbad THEN {"len"} ELSE {}) \cup (IF ascbad THEN {"asc"} ELSE {}))

\* ---- Ref ---------------------------------------------------------------------
\* position of i in idx, 0 if absent
PosOf(idx, i) == SelectInSeq(idx, LAMBDA x : x = i)
SparseGet(idx, elts, zero, i) ==
  LET p == PosOf(idx, i) IN IF p = 0 THEN <<0, zero>> ELSE <<1, elts[p]>>

\* ---- Model -------------------------------------------------------------------
NWords(idx) == IF Len(idx) = 0 THEN 0 ELSE (idx[Len(idx)] \div W) + 1
WordBits(idx, w) == {idx[x] % W : x \in {y \in 1..Len(idx) : idx[y] \div W = w}}
Offsets(idx) ==
  [w1 \in 1..NWords(idx) |->
     IF WordBits(idx, w1 - 1) = {} THEN 0
     ELSE Cardinality({x \in 1..Len(idx) : idx[x] \div W < w1 - 1})]
\* the accessor: offset of the word + number of set bits below the bit
ModelGet(idx, elts, zero, i) ==
  LET w == i \div W  b == i % W  bits == WordBits(idx, w) IN
  IF b \notin bits THEN <<0, zero>>
  ELSE <<1, elts[Offsets(idx)[w + 1] + Cardinality({x \in bits : x < b}) + 1]>>

\* ---- the serialized form (array.proto: Cnt = 1, Bitmaps = 2, Offsets = 3, Elts = 4) ------
\* for W = 64; eltbytes: the packed element bytes
ArrayWords(idx) == [w1 \in 1..NWords(idx) |-> WordBits(idx, w1 - 1)]
ArrayMsg(idx, eltbytes) ==
  OptInt(1, Len(idx)) \o PackedW(2, ArrayWords(idx)) \o PackedN(3, Offsets(idx)) \o OptBytes(4, eltbytes)
=============================================================================
