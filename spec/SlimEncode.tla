----------------------------- MODULE SlimEncode -----------------------------
(***************************************************************************)
(* Level B: the stored form of a node table, field by field, as            *)
(* creator.build / newVLenArray / newBM lay it out (trie/slimtrie_create.go,*)
(* slimtrie_vlen_array.go, bitmap.go; low/bitmap Of, OfMany, IndexRank64,   *)
(* IndexRank128, IndexSelect32R64).                                         *)
(*                                                                          *)
(* A bitmap is [bits (set of positions), nwords, rank, sel]: 64-bit words;  *)
(* the rank index holds the number of ones before every word (r64) or every *)
(* second word (r128, plus the total when the word count is even); the      *)
(* select index (s32) holds the position of every 32nd one and comes with   *)
(* an r64 index that carries the total as a last entry.                     *)
(*                                                                          *)
(* Marshal is a function of this record: it is what makes the serialized    *)
(* form deterministic (C05) and independent of key length in filter mode    *)
(* (C17), and it is what the reader-side arithmetic of slimtrie_query.go    *)
(* assumes.                                                                 *)
(***************************************************************************)
EXTENDS SlimLegacy

CeilDiv64(n) == (n + 63) \div 64

\* number of ones among positions < p
OnesBelow(bits, p) == Cardinality({b \in bits : b < p})

R64(bits, nwords, trailing) ==
  [w \in 1..(nwords + (IF trailing THEN 1 ELSE 0)) |-> OnesBelow(bits, 64 * (w - 1))]
R128(bits, nwords) ==
  LET n == ((nwords + 1) \div 2) + (IF nwords % 2 = 0 THEN 1 ELSE 0)
  IN [x \in 1..n |-> OnesBelow(bits, 128 * (x - 1))]
S32(bits) ==
  LET sorted == SetToSortSeq(bits, <)
  IN [x \in 1..((Len(sorted) + 31) \div 32) |-> sorted[32 * (x - 1) + 1]]

\* newBM(indexes, capa, kind)
NWordsOf(bits, capa) ==
  LET top == IF bits = {} THEN 0 ELSE Max(bits) + 1 IN CeilDiv64(Max2(top, capa))
BM(bits, capa, kind) ==
  LET nw == NWordsOf(bits, capa) IN
  [bits |-> bits, nwords |-> nw,
   rank |-> IF kind = "r64" THEN R64(bits, nw, FALSE)
            ELSE IF kind = "r128" THEN R128(bits, nw)
            ELSE R64(bits, nw, TRUE),
   sel  |-> IF kind = "s32" THEN S32(bits) ELSE <<>>]

\* cumulative start positions of elements of the given sizes, plus the end
CumPos(sizes) == FoldLeft(LAMBDA acc, x : Append(acc, acc[Len(acc)] + x), <<0>>, sizes)

\* ---- the label bitmaps -------------------------------------------------------------
\* for inner node k (1-based among inner nodes): its stored size and the stored bits
RECURSIVE BitsOfNum(_, _)
BitsOfNum(x, pos) == IF x = 0 THEN {} ELSE (IF x % 2 = 1 THEN {pos} ELSE {}) \cup BitsOfNum(x \div 2, pos + 1)

\* index (0-based) of bitmap bm in the short table; the table maps short -> bitmap
ShortOf(table, bm) == (CHOOSE x \in 1..Len(table) : table[x] = bm) - 1

InnerLayout(inn, ss) ==
  LET size(k) == IF inn[k].big THEN 257 ELSE IF ss.flags[k] = 1 THEN ss.size ELSE 17
      offs == CumPos([k \in 1..Len(inn) |-> size(k)])
      bitsOf(k) ==
        IF ss.flags[k] = 1
        THEN {offs[k] + b : b \in BitsOfNum(ShortOf(ss.table, BmOf(inn[k].labels)), 0)}
        ELSE {offs[k] + inn[k].labels[x] : x \in 1..Len(inn[k].labels)}
  IN [bits |-> UNION {bitsOf(k) : k \in 1..Len(inn)}, total |-> offs[Len(inn) + 1]]

\* ---- the whole message ---------------------------------------------------------------
\* steps: 2 bytes big-endian, in half-bytes
StepBytes(n) == <<(StoredStep(n) \div 256) % 256, StoredStep(n) % 256>>
PrefixElt(ks, n) == Append(PrefixBytes(ks, n), IF n.ws % 2 = 1 THEN 240 ELSE 255)

Encode(c) ==
  LET nodes == c.nodes
      inn   == InnerSeq(nodes)
      leafs == SelectSeq(nodes, LAMBDA n : ~n.inner)
      ss    == ShortSelect(nodes)
      il    == InnerLayout(inn, ss)
      stepK == {k \in 1..Len(inn) : HasStep(inn[k])}
      stepSeq == SetToSortSeq(stepK, <)
      pfxElts == [x \in 1..Len(stepSeq) |-> PrefixElt(c.ks, inn[stepSeq[x]])]
      tails == [j \in 1..Len(leafs) |-> LeafTail(c.ks, leafs[j])]
      tailJ == {j \in 1..Len(leafs) : Len(tails[j]) > 0}
      tailSeq == SetToSortSeq(tailJ, <)
      lvals == [j \in 1..Len(leafs) |-> c.vals[leafs[j].key]]
  IN [bigcnt    |-> ss.bigcnt,
      shortsize |-> ss.size,
      shorttable |-> ss.table,
      nodetype  |-> BM({i - 1 : i \in {x \in 1..Len(nodes) : nodes[x].inner}}, Len(nodes), "r64"),
      inners    |-> BM(il.bits, il.total, "r128"),
      shortbm   |-> BM({k - 1 : k \in {x \in 1..Len(inn) : ss.flags[x] = 1}}, Len(inn), "r64"),
      ip        |-> [eltcnt |-> Len(stepSeq),
                     presence |-> BM({k - 1 : k \in stepK}, Len(inn), "r128"),
                     fixed |-> IF c.o.innp THEN 0 ELSE 2,
                     position |-> IF c.o.innp
                                  THEN BM({p : p \in {CumPos([x \in 1..Len(pfxElts) |-> Len(pfxElts[x])])[y] : y \in 1..(Len(pfxElts) + 1)}}, 0, "s32")
                                  ELSE [bits |-> {}, nwords |-> -1, rank |-> <<>>, sel |-> <<>>],
                     bytes |-> IF c.o.innp THEN FlattenSeq(pfxElts)
                               ELSE FlattenSeq([x \in 1..Len(stepSeq) |-> StepBytes(inn[stepSeq[x]])])],
      lp        |-> IF ~c.o.leafp THEN [present |-> FALSE]
                    ELSE [present |-> TRUE,
                          presence |-> BM({j - 1 : j \in tailJ}, Len(leafs), "r64"),
                          position |-> BM({CumPos([x \in 1..Len(tailSeq) |-> Len(tails[tailSeq[x]])])[y] : y \in 1..(Len(tailSeq) + 1)}, 0, "s32"),
                          bytes |-> FlattenSeq([x \in 1..Len(tailSeq) |-> tails[tailSeq[x]]])],
      \* newVLenArray: absent when every encoded value is empty; otherwise a presence
      \* bitmap of the NON-EMPTY elements, and either one fixed size (all non-empty
      \* elements equally long) or a positional bitmap over all elements
      leaves    |-> IF ~c.hasvals \/ \A j \in 1..Len(leafs) : Len(lvals[j]) = 0 THEN [present |-> FALSE]
                    ELSE LET sizes == [j \in 1..Len(leafs) |-> Len(lvals[j])]
                             J     == {j \in 1..Len(leafs) : sizes[j] > 0}
                             alleq == \A a, b \in J : sizes[a] = sizes[b] IN
                         [present |-> TRUE, n |-> Len(leafs), eltcnt |-> Cardinality(J),
                          presence |-> BM({j - 1 : j \in J}, Len(leafs), "r64"),
                          fixed |-> IF alleq THEN sizes[CHOOSE j \in J : TRUE] ELSE 0,
                          position |-> IF alleq THEN [bits |-> {}, nwords |-> -1, rank |-> <<>>, sel |-> <<>>]
                                       ELSE BM({CumPos(sizes)[y] : y \in 1..(Len(leafs) + 1)}, 0, "s32"),
                          bytes |-> FlattenSeq(lvals)]]
=============================================================================
