CONSTANTS
  BigMin = 10
  ShortCost = 64
  MaxShort = 10
  StepBits = 16
  NPool = 5
SPECIFICATION FairSpec
INVARIANTS NoResidue NeverHalf EmptyAnswersNothing
PROPERTIES StepOutcomes LoadEnds
CHECK_DEADLOCK FALSE
