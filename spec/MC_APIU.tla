------------------------------ MODULE MC_APIU ------------------------------
(***************************************************************************)
(* The histories of one instance WITHOUT a bound on their length (C05,     *)
(* C07, C20).  MC_API carries the history as a variable (it prints it for  *)
(* the replay into the code), which is what bounds it; here the history is *)
(* dropped, the reachable state space of SlimHist over the pool is finite  *)
(* and TLC exhausts it: every sequence, of any length, of Unmarshal (whole, *)
(* cut in the header, cut in the body, newer / pre-release / malformed     *)
(* version), Reset and read-only calls, with Unmarshal in its real steps.  *)
(*                                                                         *)
(* The property is stated on states and steps instead of on the history:   *)
(*   NoResidue      idle: the instance holds exactly the content of the    *)
(*                  stream named by inst.src, or nothing                   *)
(*   NeverHalf      while a load is running the instance is empty          *)
(*   StepOutcomes   a load that ends, ends in the state its last step      *)
(*                  demands: commit -> src = that stream and no error;     *)
(*                  failure in header or body -> empty and an error of     *)
(*                  the right class; Reset -> empty; reads change nothing  *)
(***************************************************************************)
EXTENDS SlimHist

CONSTANT NPool

PoolDef ==
  LET mk(keys, o4, n) == [ver |-> <<48, 46, 53, 46, 49, 50>>, secs |-> <<n>>,
                          content |-> Content(keys, [i \in 1..Len(keys) |-> <<i>>], TRUE, o4, TRUE)]
  IN << mk(<<>>, <<2, 2, 2, 2>>, 0),
        mk(<< <<97>> >>, <<2, 2, 2, 2>>, 5),
        mk(<< <<97>>, <<97, 98>>, <<98>> >>, <<2, 2, 2, 2>>, 9),
        mk(<< <<97>>, <<97, 99>>, <<99>> >>, <<1, 0, 0, 1>>, 12),
        mk(<< <<0>>, <<0, 255>>, <<16>>, <<255>> >>, <<0, 1, 0, 0>>, 20) >>

V0512 == <<48, 46, 53, 46, 49, 50>>
V0513 == <<48, 46, 53, 46, 49, 51>>
VPre  == <<48, 46, 53, 46, 49, 50, 45, 114, 99>>
VBad  == <<97, 98, 99>>
Versions == {V0512, V0513, VPre, VBad}

vars == <<inst, iters, pool, pc, last>>

Init ==
  /\ inst = EmptyC /\ iters = NoIters
  /\ pool = [s \in 1..NPool |-> PoolDef[s]]
  /\ pc = Idle /\ last = ""

\* every cut point class of every stream with every version class
Cuts(s) == {0, 16, HeaderLen - 1, HeaderLen, StreamLen(pool[s]) - 1, StreamLen(pool[s])} \cap 0..StreamLen(pool[s])

Begin == \E s \in 1..NPool : \E v \in Versions, c \in Cuts(s) : UnmBegin(s, v, c)
Next == (Begin \/ UnmHeader \/ UnmBody \/ UnmCommit \/ ResetInst \/ ReadOnly) /\ UNCHANGED iters

Spec == Init /\ [][Next]_vars

SameContent(c, s) == c.ks = pool[s].content.ks /\ c.nodes = pool[s].content.nodes /\ c.vals = pool[s].content.vals

NoResidue ==
  pc[1] = "idle" => IF inst.src = 0 THEN IsEmptyInst ELSE SameContent(inst, inst.src)

NeverHalf == pc[1] # "idle" => IsEmptyInst /\ inst.src = 0

\* an empty instance answers nothing (on the Model)
EmptyAnswersNothing ==
  IsEmptyInst => \A q \in {<<>>, <<97>>, <<97, 98>>, <<0>>} :
        GetIDm(inst.ks, inst.nodes, inst.o, q) = -1 /\ SearchIDm(inst.ks, inst.nodes, inst.o, q) = <<-1, -1, -1>>

StepOutcomes ==
  [][ /\ (pc[1] = "commit" /\ pc'[1] = "idle") =>
           (inst'.src = pc[2] /\ last' = "" /\ inst'.lv = ModelLevels(inst'.nodes)
            /\ Compatible(pc[3]) /\ pc[4] = StreamLen(pool[pc[2]]))
      /\ (pc[1] = "header" /\ pc'[1] = "idle") =>
           (inst'.src = 0 /\ last' \in {"other", "incompatible"}
            /\ (last' = "incompatible" <=> (pc[4] >= HeaderLen /\ ~Compatible(pc[3]))))
      /\ (pc[1] = "body" /\ pc'[1] = "idle") => (inst'.src = 0 /\ last' = "other" /\ pc[4] < StreamLen(pool[pc[2]]))
      \* the derived table is the only thing a failed load leaves stale; nothing else survives
      /\ (pc[1] = "idle" /\ pc'[1] = "header") => (inst'.lv = inst.lv /\ inst'.ks = <<>>)
      \* a whole valid stream of a compatible version always loads
      /\ (pc[1] = "body" /\ pc[4] = StreamLen(pool[pc[2]])) => pc'[1] = "commit"
    ]_vars

\* liveness: a load that has begun always ends (no step can block)
LoadEnds == (pc[1] # "idle") ~> (pc[1] = "idle")
FairSpec == Spec /\ WF_vars(UnmHeader /\ UNCHANGED iters) /\ WF_vars(UnmBody /\ UNCHANGED iters) /\ WF_vars(UnmCommit /\ UNCHANGED iters)
=============================================================================
