------------------------------ MODULE MC_Size ------------------------------
(***************************************************************************)
(* B1 for C17: what a filter-mode trie stores is a function of WHERE the   *)
(* keys branch, not of how long they are.  In every small world, prepending*)
(* a common prefix P to every key leaves the node table unchanged -- same  *)
(* node kinds, same labels, same children, same steps -- except that the   *)
(* root's step grows by the length of P.  Since a step costs 16 bits       *)
(* whatever its value, the stored size of (P + K) differs from that of K   *)
(* by at most the one step entry the root may gain.                        *)
(***************************************************************************)
EXTENDS Worlds

PrependedPs == { <<7>>, <<7, 7>>, <<0, 255, 16>>, <<255>> }

Shift(n, d) ==
  IF n.inner THEN [n EXCEPT !.from = @ + d, !.ws = @ + d] ELSE [n EXCEPT !.from = @ + d]

Inv ==
  LET nodes == TLCEval(Nodes) IN
  \A P \in PrependedPs :
    LET pk == [i \in 1..Len(keys) |-> P \o keys[i]]
        np == BuildNodes(pk, vals, hasvals, dd, TRUE)
        d  == 2 * Len(P) IN
    /\ Len(np) = Len(nodes)
    /\ \A i \in 1..Len(nodes) :
         IF i = 1
         THEN \* the root keeps its start (0) and gains the prefix as step
              IF nodes[1].inner
              THEN np[1] = [nodes[1] EXCEPT !.ws = @ + d]
              ELSE np[1] = nodes[1]
         ELSE np[i] = Shift(nodes[i], d)
    \* number of stored steps grows by at most one
    /\ Cardinality({i \in 1..Len(np) : np[i].inner /\ HasStep(np[i])})
         <= Cardinality({i \in 1..Len(nodes) : nodes[i].inner /\ HasStep(nodes[i])}) + 1
=============================================================================
