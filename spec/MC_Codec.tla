------------------------------ MODULE MC_Codec ------------------------------
(***************************************************************************)
(* B1 for C15: the round-trip algebra of the format definition, for ALL     *)
(* 8-bit and 16-bit values, signed and unsigned: decoding the encoding of   *)
(* an in-range value gives the value back; the encoding has the width of    *)
(* the type; String16 carries its length big-endian.                        *)
(***************************************************************************)
EXTENDS SlimCodec

VARIABLES v, w, signed

Digits(x, n) == [i \in 1..n |-> (x \div (256 ^ (i - 1))) % 256]

Init == v = 0 /\ w \in {1, 2} /\ signed \in BOOLEAN
Next == v < (IF w = 1 THEN 255 ELSE 65535) /\ v' = v + 1 /\ UNCHANGED <<w, signed>>

\* v enumerates the bit patterns; the value it stands for, and back
Inv ==
  LET bytes == Digits(v, w)
      val == FromTwoC(signed, bytes) IN
  /\ InRange(signed, val.neg, val.mag)
  /\ Len(val.mag) = w
  /\ EncInt(val.neg, val.mag, FALSE) = bytes
  /\ EncInt(val.neg, val.mag, TRUE) = Reverse(bytes)
  /\ FromTwoC(signed, EncInt(val.neg, val.mag, FALSE)) = val
  /\ LET s == [i \in 1..(v % 300) |-> (v + i) % 256] IN
       /\ Len(EncString16(s)) = 2 + Len(s)
       /\ EncString16(s)[1] * 256 + EncString16(s)[2] = Len(s)
=============================================================================
